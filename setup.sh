#!/bin/sh
# Offline setup: runtime-contract library beside the repository's interpreter (git-ignored .deps).
HERE="$(cd "$(dirname "$0")" && pwd)"
PY="${VERIF_PYTHON:-/venv/bin/python}"
if [ ! -d "$HERE/.deps/icontract" ]; then
  mkdir -p "$HERE/.deps"
  PIP_NO_INDEX=1 "$PY" -m pip install --quiet --no-index --find-links /opt/veriftools/wheels --target "$HERE/.deps" icontract || echo "icontract not installed (checks fall back to plain wrappers)"
fi
"$PY" -c "import sys; sys.path.insert(0, '/repo'); import reamber, pandas, numpy; print('reamber', reamber.__file__, 'pandas', pandas.__version__)"
exit 0
