"""Core of the runtime-monitoring framework: per-shard context (event counters,
verdict records, case bookkeeping), JSON helpers and known-finding matching.

A *check* (checks/Cxx.py) produces executions of the real reamber code; the
*monitors* (rv/monitors/*.py) are attached to the real functions and report
into the Ctx of the running shard.  Nothing here imports reamber.
"""
from __future__ import annotations

import hashlib
import json
import math
import os
import random
import time
import traceback
from collections import Counter
from fractions import Fraction

VERIF_DIR = os.path.dirname(os.path.dirname(os.path.abspath(__file__)))
REPO = os.environ.get("VERIF_REPO", "/repo")

MAX_VIOLATIONS_KEPT = 40  # per shard, per (prop, monitor, clause)
MAX_SAMPLES = 4


def jsonable(x, depth=0):
    """Best-effort conversion of witnesses to JSON (Fractions, bytes, numpy...)."""
    if depth > 8:
        return repr(x)[:200]
    if x is None or isinstance(x, (bool, int, str)):
        return x
    if isinstance(x, float):
        if math.isnan(x):
            return "NaN"
        if math.isinf(x):
            return "inf" if x > 0 else "-inf"
        return x
    if isinstance(x, Fraction):
        return float(x) if x.denominator != 1 else int(x)
    if isinstance(x, bytes):
        try:
            return "b:" + x.decode("ascii")
        except Exception:
            return "bx:" + x.hex()
    if isinstance(x, dict):
        return {str(jsonable(k, depth + 1)): jsonable(v, depth + 1) for k, v in x.items()}
    if isinstance(x, (list, tuple, set, frozenset)):
        return [jsonable(v, depth + 1) for v in x]
    try:
        import numpy as np

        if isinstance(x, np.generic):
            return jsonable(x.item(), depth + 1)
        if isinstance(x, np.ndarray):
            return jsonable(x.tolist(), depth + 1)
    except Exception:
        pass
    if isinstance(x, type):
        return x.__name__
    return repr(x)[:300]


def canon_hash(obj) -> str:
    return hashlib.sha1(
        json.dumps(jsonable(obj), sort_keys=True, default=repr).encode()
    ).hexdigest()[:16]


def case_rng(seed: int, prop: str, k: int) -> random.Random:
    h = hashlib.sha256(f"{seed}/{prop}/{k}".encode()).digest()
    return random.Random(int.from_bytes(h[:8], "big"))


class Ctx:
    """Per-process recorder shared by the workload and all monitors."""

    def __init__(self, prop: str, tier: str, seed: int, shard: int = 0, nshards: int = 1):
        self.prop = prop
        self.tier = tier
        self.seed = seed
        self.shard = shard
        self.nshards = nshards
        self.counters: Counter = Counter()  # "<monitor>.<what>" -> n
        self.reach: Counter = Counter()  # mechanism line / branch probes
        self.states: dict = {}  # name -> set of distinct observed states
        self.classes: Counter = Counter()  # generator class -> cases
        self.violations: list = []
        self._viol_count: Counter = Counter()
        self.cases = 0
        self.case_hashes: set = set()
        self.nontrivial_hashes: set = set()
        self.samples: list = []
        self.cur_case = None
        self.cur_k = None
        self._cur_judged = 0
        self.quiet_depth = 0  # >0: monitors do not judge (oracle is using the API)
        self.replaying = False
        self.notes: list = []
        self.t0 = time.time()

    # ---- case bookkeeping -------------------------------------------------
    def begin_case(self, k, case):
        self.cur_k = k
        self.cur_case = case
        self._cur_judged = 0
        self.cases += 1
        cls = case.get("cls", "?") if isinstance(case, dict) else "?"
        self.classes[cls] += 1

    def end_case(self):
        case = self.cur_case
        h = canon_hash(case)
        self.case_hashes.add(h)
        if self._cur_judged > 0:
            self.nontrivial_hashes.add(h)
            if len(self.samples) < MAX_SAMPLES and (
                not self.samples or self.samples[-1].get("cls") != case.get("cls")
            ):
                s = jsonable(case)
                txt = json.dumps(s)
                if len(txt) > 3000:
                    s = {"cls": case.get("cls"), "truncated_repr": txt[:3000]}
                s["_judged_events"] = self._cur_judged
                self.samples.append(s)
        self.cur_case = None
        self.cur_k = None

    # ---- verdict events ---------------------------------------------------
    def held(self, monitor: str, clause: str = "", n: int = 1):
        self.counters[f"{monitor}|held"] += n
        if clause:
            self.counters[f"{monitor}|held.{clause}"] += n
        self._cur_judged += n

    def ood(self, monitor: str, reason: str):
        """Call outside the property's quantifier domain: counted, never judged."""
        self.counters[f"{monitor}|out_of_domain"] += 1
        self.counters[f"{monitor}|out_of_domain.{reason}"] += 1

    def seen(self, monitor: str, what: str = "calls_seen", n: int = 1):
        self.counters[f"{monitor}|{what}"] += n

    def state(self, name: str, value):
        self.states.setdefault(name, set()).add(str(value))

    def violate(self, prop: str, monitor: str, clause: str, msg: str, witness=None, feature=None):
        """Record a violation of `prop` seen by `monitor` under `clause`.

        feature: mechanism-level description (dict) used for known-finding matching.
        """
        self.counters[f"{monitor}|violated"] += 1
        self.counters[f"{monitor}|violated.{clause}"] += 1
        self._cur_judged += 1
        key = (prop, monitor, clause)
        self._viol_count[key] += 1
        if self._viol_count[key] > MAX_VIOLATIONS_KEPT:
            # still keep the feature for known-finding accounting, drop the bulk
            witness = None
        self.violations.append(
            dict(
                prop=prop,
                monitor=monitor,
                clause=clause,
                msg=str(msg)[:600],
                feature=jsonable(feature or {}),
                witness=jsonable(witness) if witness is not None else None,
                case_k=self.cur_k,
                case=jsonable(self.cur_case) if self._viol_count[key] <= 5 else None,
                check=self.prop,
                seed=self.seed,
                process=dict(prelude_done=bool(getattr(self, "prelude_done", False))),  # what a replay has to re-create first
            )
        )

    def quiet(self):
        return _Quiet(self)

    def result(self) -> dict:
        return dict(
            prop=self.prop,
            shard=self.shard,
            cases=self.cases,
            case_hashes=sorted(self.case_hashes),
            nontrivial_hashes=sorted(self.nontrivial_hashes),
            classes=dict(self.classes),
            counters=dict(self.counters),
            reach=dict(self.reach),
            states={k: sorted(v)[:400] for k, v in self.states.items()},
            violations=self.violations,
            samples=self.samples,
            notes=self.notes[:50],
            wall_s=time.time() - self.t0,
        )


class _Quiet:
    def __init__(self, ctx):
        self.ctx = ctx

    def __enter__(self):
        self.ctx.quiet_depth += 1

    def __exit__(self, *a):
        self.ctx.quiet_depth -= 1
        return False


# The one live context of this process (monitors look it up lazily so that
# they can be installed before the workload creates per-case state).
_CTX: Ctx | None = None


def set_ctx(ctx: Ctx):
    global _CTX
    _CTX = ctx


def ctx() -> Ctx:
    assert _CTX is not None, "no live Ctx"
    return _CTX


def short_tb(e: BaseException, limit=6) -> str:
    tb = traceback.format_exception(type(e), e, e.__traceback__)
    return "".join(tb[-limit:])[-1500:]


# ---- known findings ---------------------------------------------------------

def load_known_findings() -> dict:
    p = os.path.join(VERIF_DIR, "known_findings.json")
    if not os.path.exists(p):
        return {"findings": [], "fixed": []}
    with open(p) as f:
        return json.load(f)


def match_finding(v: dict, findings: list):
    """A listed open finding matches a violation iff property, monitor (if given),
    clause and every listed feature key agree.  Mechanism-keyed, never by hash."""
    for f in findings:
        if f.get("status", "open") != "open":
            continue
        if f["property"] != v["prop"]:
            continue
        m = f.get("match", {})
        if "monitor" in m and m["monitor"] != v["monitor"]:
            continue
        if "clause" in m:
            cl = m["clause"]
            if (v["clause"] not in cl) if isinstance(cl, list) else (cl != v["clause"]):
                continue
        feat = v.get("feature") or {}
        ok = True
        for k, want in m.get("feature", {}).items():
            if feat.get(k) != want:
                ok = False
                break
        if ok:
            return f
    return None
