"""Independent osu! file format v14 (mania) interpreter: text -> denotation.
Written from the format description, not from reamber's code.

Sections by [Header]; `key:value` pairs split at the FIRST colon; [Events]:
background = first `0,0,"file",...` line, every `Sample,time,layer,"file"[,volume]`
line; [TimingPoints]: time,beatLength,meter,sampleSet,sampleIndex,volume,
uninherited,effects (bpm = 60000/beatLength if uninherited else SV = -100/
beatLength; kiai = effects & 1); [HitObjects]: x,y,time,type,hitSound,params
where type & 128 marks a mania hold `endTime:hitSample`, hitSample =
normalSet:additionSet:index:volume:filename; column = floor(x*keys/512) clamped.
"""
from __future__ import annotations

from math import floor

SECTIONS = ["General", "Editor", "Metadata", "Difficulty", "Events", "TimingPoints", "HitObjects"]

# key -> (attribute on OsuMap, kind)
META = {
    "General": {"AudioFilename": ("audio_file_name", "str"), "AudioLeadIn": ("audio_lead_in", "int"), "PreviewTime": ("preview_time", "int"),
                "Countdown": ("countdown", "bool"), "SampleSet": ("sample_set", "sampleset"), "StackLeniency": ("stack_leniency", "float"),
                "Mode": ("mode", "int"), "LetterboxInBreaks": ("letterbox_in_breaks", "bool"), "SpecialStyle": ("special_style", "bool"),
                "WidescreenStoryboard": ("widescreen_storyboard", "bool")},
    "Editor": {"DistanceSpacing": ("distance_spacing", "float"), "BeatDivisor": ("beat_divisor", "int"), "GridSize": ("grid_size", "int"),
               "TimelineZoom": ("timeline_zoom", "float")},
    "Metadata": {"Title": ("title", "str"), "TitleUnicode": ("title_unicode", "str"), "Artist": ("artist", "str"),
                 "ArtistUnicode": ("artist_unicode", "str"), "Creator": ("creator", "str"), "Version": ("version", "str"),
                 "Source": ("source", "str"), "Tags": ("tags", "tags"), "BeatmapID": ("beatmap_id", "int"), "BeatmapSetID": ("beatmap_set_id", "int")},
    "Difficulty": {"HPDrainRate": ("hp_drain_rate", "float"), "CircleSize": ("circle_size", "float"), "OverallDifficulty": ("overall_difficulty", "float"),
                   "ApproachRate": ("approach_rate", "float"), "SliderMultiplier": ("slider_multiplier", "float"), "SliderTickRate": ("slider_tick_rate", "float")},
}
SAMPLESETS = {"None": 0, "Normal": 1, "Soft": 2, "Drum": 3}


def unquote(s):
    s = s.strip()
    return s[1:-1] if len(s) >= 2 and s[0] == '"' and s[-1] == '"' else s


def split_event(ln):
    """Comma fields of an [Events] line; a comma inside a double-quoted file name belongs to the name."""
    out, cur, quoted = [], [], False
    for ch in ln:
        if ch == '"':
            quoted = not quoted
            cur.append(ch)
        elif ch == "," and not quoted:
            out.append("".join(cur))
            cur = []
        else:
            cur.append(ch)
    out.append("".join(cur))
    return out


def conv(kind, v):
    v = v.strip()
    if kind == "str":
        return v
    if kind == "int":
        return int(float(v))
    if kind == "float":
        return float(v)
    if kind == "bool":
        return bool(int(v))
    if kind == "sampleset":
        return SAMPLESETS.get(v, -1)
    if kind == "tags":
        return [t for t in v.split(" ") if t]
    raise ValueError(kind)


def parse_osu(lines):
    """lines: list[str] or str.  Returns the denotation + well-formedness problems."""
    if isinstance(lines, str):
        lines = lines.split("\n")
    problems = []
    sec = None
    order = []
    per = {s: [] for s in SECTIONS}
    header = None
    for raw in lines:
        for ln in str(raw).split("\n"):  # the writer embeds newlines in some entries
            ln = ln.strip()
            if not ln:
                continue
            if ln.startswith("[") and ln.endswith("]"):
                sec = ln[1:-1]
                order.append(sec)
                if sec not in per:
                    per[sec] = []
                continue
            if sec is None:
                header = ln if header is None else header
                continue
            per[sec].append(ln)
    meta = {}
    for s, table in META.items():
        for ln in per.get(s, []):
            if ln.startswith("//"):
                continue
            if ":" not in ln:
                problems.append(f"[{s}] line without ':' {ln[:40]!r}")
                continue
            k, v = ln.split(":", 1)
            k = k.strip()
            if k in table:
                attr, kind = table[k]
                try:
                    meta[attr] = conv(kind, v)
                except Exception:
                    problems.append(f"[{s}] {k}: bad value {v[:30]!r}")
    background = None
    samples = []
    for ln in per.get("Events", []):
        if ln.startswith("//"):
            continue
        f = split_event(ln)
        if f[0] in ("0", "Background") and background is None and len(f) >= 3:
            background = unquote(f[2])
        elif f[0] in ("Sample", "5"):
            if len(f) < 4:
                problems.append(f"bad Sample event {ln[:40]!r}")
                continue
            samples.append((float(f[1]), unquote(f[3]), int(f[4]) if len(f) > 4 and f[4].strip() else 100))
    bpms, svs = [], []
    for ln in per.get("TimingPoints", []):
        f = ln.split(",")
        if len(f) < 2:
            problems.append(f"bad timing point {ln[:40]!r}")
            continue
        f = f + ["4", "0", "0", "100", "1", "0"][len(f) - 2:] if len(f) < 8 else f
        try:
            t, bl = float(f[0]), float(f[1])
            meter, sset, sidx, vol, unin, eff = int(f[2]), int(f[3]), int(f[4]), int(f[5]), int(f[6]), int(f[7])
        except ValueError:
            problems.append(f"bad timing point {ln[:40]!r}")
            continue
        if unin == 1:
            bpms.append(dict(offset=t, bpm=60000.0 / bl if bl else float("inf"), metronome=meter, sample_set=sset, sample_set_index=sidx, volume=vol, kiai=bool(eff & 1)))
        else:
            svs.append(dict(offset=t, multiplier=-100.0 / bl if bl else float("inf"), metronome=meter, sample_set=sset, sample_set_index=sidx, volume=vol, kiai=bool(eff & 1)))
    keys = int(meta.get("circle_size", 4))
    hits, holds = [], []
    xs = []
    for ln in per.get("HitObjects", []):
        f = ln.split(",")
        if len(f) < 5:
            problems.append(f"bad hit object {ln[:40]!r}")
            continue
        try:
            x, y, t, typ, hs = int(f[0]), int(f[1]), float(f[2]), int(f[3]), int(f[4])
        except ValueError:
            problems.append(f"bad hit object {ln[:40]!r}")
            continue
        col = max(min(floor(x * keys / 512), keys - 1), 0) if keys > 0 else 0
        xs.append((x, col))
        extra = f[5] if len(f) > 5 else ""
        parts = extra.split(":")
        d = dict(offset=t, column=col, hitsound_set=hs)
        if typ & 128:
            try:
                end = float(parts[0])
            except ValueError:
                problems.append(f"hold without endTime {ln[:40]!r}")
                continue
            sp = parts[1:]
        else:
            end = None
            sp = parts if extra else []
        sp = sp + ["0", "0", "0", "0", ""][len(sp):]
        try:
            d.update(sample_set=int(sp[0]), addition_set=int(sp[1]), custom_set=int(sp[2]), volume=int(sp[3]), hitsound_file=":".join(sp[4:]))
        except ValueError:
            problems.append(f"bad hitSample {ln[:40]!r}")
            continue
        if end is None:
            hits.append(d)
        else:
            d["length"] = end - t
            holds.append(d)
    return dict(header=header, order=order, meta=meta, background=background, samples=samples, bpms=bpms, svs=svs, hits=hits, holds=holds,
                keys=keys, xs=xs, problems=problems, raw=per)
