"""Exact (Fraction) tempo model: the reference for C02-C05, C07, C09-C11.

A tempo timeline is a list of changes (measure, beat, bpm, metronome), the
first at (0, 0), anchored at `initial_offset` ms.  Positions are measure/beat
pairs; a change's metronome applies to the measures from its own onward
(metronome changes sit on measure lines; tempo-only changes may sit anywhere).
Nothing here uses floats except to import them exactly (Fraction(float)).
"""
from __future__ import annotations

from bisect import bisect_right
from fractions import Fraction as F
from math import floor

DEFAULT_DIVISIONS = (1, 2, 3, 4, 5, 6, 7, 8, 9, 12, 16, 32, 64, 96)

_BIG = 10**60
_Q = 10**40


def q(x: F) -> F:
    """Keep rationals cheap: a value whose denominator exceeds 1e60 (hundreds of
    chained tempo changes with long decimal bpms) is rounded to a multiple of
    1e-40 — 34 orders of magnitude below every tolerance used."""
    if x.denominator > _BIG:
        return F(round(x * _Q), _Q)
    return x


class RefTiming:
    def __init__(self, initial_offset, changes, anchors=None):
        """anchors: optional exact ms of every change (in the given order of
        `changes`); when given they replace integration from initial_offset
        (used when the object under observation stores the anchors itself)."""
        order = sorted(range(len(changes)), key=lambda i: (int(changes[i][0]), F(changes[i][1])))
        ch = [(int(changes[i][0]), F(changes[i][1]), F(changes[i][2]), F(changes[i][3])) for i in order]
        assert ch and ch[0][0] == 0 and ch[0][1] == 0, "first change must be at (0, 0)"
        self.ch = ch
        self.abs = [F(0)]
        self.ms = [F(initial_offset)]
        for (m0, b0, v0, t0), (m1, b1, v1, t1) in zip(ch, ch[1:]):
            d = (m1 - m0) * t0 + (b1 - b0)
            self.abs.append(self.abs[-1] + d)
            self.ms.append(q(self.ms[-1] + d * 60000 / v0))
        if anchors is not None:
            self.ms = [F(anchors[i]) for i in order]
        self._keys = [(c[0], c[1]) for c in ch]

    # position -> ...
    def seg_of_pos(self, measure, beat):
        i = bisect_right(self._keys, (measure, F(beat))) - 1
        if i < 0:
            raise ValueError("position before the first change")
        return i

    def abs_of_pos(self, measure, beat):
        i = self.seg_of_pos(measure, beat)
        m0, b0, v0, t0 = self.ch[i]
        return self.abs[i] + (measure - m0) * t0 + (F(beat) - b0)

    def ms_of_pos(self, measure, beat):
        i = self.seg_of_pos(measure, beat)
        m0, b0, v0, t0 = self.ch[i]
        d = (measure - m0) * t0 + (F(beat) - b0)
        return self.ms[i] + d * 60000 / v0

    # ms -> ...
    def seg_of_ms(self, ms):
        i = bisect_right(self.ms, F(ms)) - 1
        if i < 0:
            raise ValueError("time before the first change")
        return i

    def pos_of_ms(self, ms):
        """Exact (measure, beat) of a time (may be off every grid)."""
        i = self.seg_of_ms(ms)
        m0, b0, v0, t0 = self.ch[i]
        total = b0 + (F(ms) - self.ms[i]) * v0 / 60000
        q = floor(total / t0)
        return m0 + q, total - q * t0

    def abs_of_ms(self, ms):
        i = self.seg_of_ms(ms)
        return self.abs[i] + (F(ms) - self.ms[i]) * self.ch[i][2] / 60000

    def bpm_at_ms(self, ms):
        return self.ch[self.seg_of_ms(ms)][2]

    def beat_len_at_ms(self, ms):
        return F(60000) / self.bpm_at_ms(ms)


class RefBeats:
    """Constant-4/4 timeline addressed by absolute beat (StepMania, BMS, OJN)."""

    def __init__(self, initial_offset, changes):
        """changes: (abs_beat, bpm); the first at beat 0 (others sorted here).
        Two changes on one beat: the later in the given order wins."""
        ch = []
        # sorted() is stable: equal beats keep the given order
        for b, v in [(F(b), F(v)) for b, v in sorted(changes, key=lambda x: F(x[0]))]:
            if ch and ch[-1][0] == b:
                ch[-1] = (b, v)
            else:
                ch.append((b, v))
        self.ch = ch
        self.ms = [F(initial_offset)]
        for (b0, v0), (b1, v1) in zip(ch, ch[1:]):
            self.ms.append(q(self.ms[-1] + (b1 - b0) * 60000 / v0))
        self._beats = [c[0] for c in ch]

    def ms_of_beat(self, beat):
        beat = F(beat)
        i = max(bisect_right(self._beats, beat) - 1, 0)
        b0, v0 = self.ch[i]
        return self.ms[i] + (beat - b0) * 60000 / v0

    def beat_of_ms(self, ms):
        ms = F(ms)
        i = max(bisect_right(self.ms, ms) - 1, 0)
        b0, v0 = self.ch[i]
        return b0 + (ms - self.ms[i]) * v0 / 60000

    def bpm_at_ms(self, ms):
        i = max(bisect_right(self.ms, F(ms)) - 1, 0)
        return self.ch[i][1]

    def points(self):
        return [(self.ms[i], v, b) for i, (b, v) in enumerate(self.ch)]


def step_bpm(points):
    """points [(ms, bpm)] -> canonical step function: sorted, equal consecutive
    bpm merged, coincident points: last wins.  Used to compare tempo timelines
    ("which bpm is active when") independent of redundant points."""
    out = []
    for ms, v in sorted(points, key=lambda p: p[0]):
        if out and out[-1][0] == ms:
            out[-1] = (ms, v)
        elif out and out[-1][1] == v:
            continue
        else:
            out.append((ms, v))
    # merging after overwrite may have produced equal neighbours
    res = []
    for p in out:
        if res and res[-1][1] == p[1]:
            continue
        res.append(p)
    return res


# ---- snapping ---------------------------------------------------------------

def nearest_on_divisions(x: F, divisions=DEFAULT_DIVISIONS):
    """All fractions k/d (d in divisions) nearest to x, and that distance."""
    best = None
    cands = set()
    for d in divisions:
        lo = F(floor(x * d), d)
        for c in (lo, lo + F(1, d)):
            dist = abs(c - x)
            if best is None or dist < best:
                best = dist
                cands = {c}
            elif dist == best:
                cands.add(c)
    return cands, best


def nearest_farey(x: F, max_den: int):
    """All fractions with denominator <= max_den nearest to x, and the distance."""
    return nearest_on_divisions(x, range(1, max_den + 1))


def on_divisions(x: F, divisions=DEFAULT_DIVISIONS) -> bool:
    x = F(x)
    return any((x * d).denominator == 1 for d in divisions)


def on_farey(x: F, max_den: int = 96) -> bool:
    return F(x).denominator <= max_den


def close(a, b, abs_tol=1e-6, rel_tol=1e-9) -> bool:
    a = float(a)
    b = float(b)
    return abs(a - b) <= abs_tol + rel_tol * max(abs(a), abs(b))
