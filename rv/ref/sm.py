"""Independent StepMania .sm interpreter (text -> denotation) written from the
format description, not from reamber's code.

Denotation: header tags, -#OFFSET anchor, #BPMS segments (exact rationals of
the decimal text), and per chart the objects (kind, column, beat[, end beat])
with row r of n in measure m at beat 4*(m + r/n).  Times are obtained by
exact piecewise integration (rv.ref.timing.RefBeats).
"""
from __future__ import annotations

import re
from decimal import Decimal
from fractions import Fraction as F

from rv.ref.timing import RefBeats

SYMBOL_KIND = {"1": "hit", "M": "mine", "L": "lift", "F": "fake", "K": "keysound"}
LEGAL = set("01234MLFK")

HEADER_FIELDS = [
    ("#TITLE", "title"), ("#SUBTITLE", "subtitle"), ("#ARTIST", "artist"),
    ("#TITLETRANSLIT", "title_translit"), ("#SUBTITLETRANSLIT", "subtitle_translit"),
    ("#ARTISTTRANSLIT", "artist_translit"), ("#GENRE", "genre"), ("#CREDIT", "credit"),
    ("#BANNER", "banner"), ("#BACKGROUND", "background"), ("#LYRICSPATH", "lyrics_path"),
    ("#CDTITLE", "cd_title"), ("#MUSIC", "music"), ("#DISPLAYBPM", "display_bpm"),
    ("#BGCHANGES", "bg_changes"), ("#FGCHANGES", "fg_changes"),
]

KEYS = {"dance-single": 4, "dance-double": 8, "dance-solo": 6, "dance-couple": 4,
        "dance-threepanel": 3, "dance-routine": 8, "kb7-single": 7}


def dec(s: str) -> F:
    return F(Decimal(s.strip()))


def strip_comments(text: str) -> str:
    return re.sub(r"//[^\n]*", "", text)


def parse_sm(text: str) -> dict:
    problems = []
    body = strip_comments(text)
    # strict token structure (used by the writer check): only tags and whitespace
    if not re.fullmatch(r"\s*(#[A-Za-z]+:[^;#]*;\s*)*", body):
        problems.append("not_a_sequence_of_#TAG:value;")
    tags = []
    for tok in body.split(";"):
        i = tok.find("#")
        if i < 0:
            if tok.strip():
                problems.append(f"text outside a tag: {tok.strip()[:30]!r}")
            continue
        if tok[:i].strip():
            problems.append(f"text before tag: {tok[:i].strip()[:30]!r}")
        parts = tok[i:].split(":")
        tags.append((parts[0].strip().upper(), parts[1:]))
    hdr = {}
    charts_raw = []
    for k, v in tags:
        if k == "#NOTES":
            charts_raw.append(v)
        elif k not in hdr:
            hdr[k] = ":".join(v).strip() if v else ""
    offset_ms = -dec(hdr["#OFFSET"]) * 1000 if hdr.get("#OFFSET", "").strip() else F(0)
    bpms = []
    for ent in hdr.get("#BPMS", "").split(","):
        if not ent.strip():
            continue
        b, v = ent.split("=")
        bpms.append((dec(b), dec(v)))
    stops = []
    for ent in hdr.get("#STOPS", "").split(","):
        if not ent.strip():
            continue
        b, v = ent.split("=")
        stops.append((dec(b), dec(v)))
    charts = []
    for c in charts_raw:
        ch = dict(problems=[])
        if len(c) != 6:
            ch["problems"].append(f"#NOTES has {len(c)} fields, not 6")
            charts.append(ch)
            continue
        ctype, desc, diff, meter, radar = [x.strip() for x in c[:5]]
        ch.update(type=ctype, desc=desc, diff=diff, meter=meter, radar=radar)
        objs = []
        open_ = {}
        row_counts = []
        widths = set()
        # note data without any row is a chart of zero measures (valid, no objects)
        for m, meas in enumerate(c[5].split(",") if c[5].strip() else []):
            rows = [r.strip() for r in meas.split("\n") if r.strip()]
            n = len(rows)
            row_counts.append(n)
            if n == 0:
                ch["problems"].append(f"measure {m} is empty")
                continue
            for r, row in enumerate(rows):
                widths.add(len(row))
                beat = 4 * (F(m) + F(r, n))
                for col, sym in enumerate(row):
                    if sym == "0":
                        continue
                    if sym not in LEGAL:
                        ch["problems"].append(f"illegal symbol {sym!r} in measure {m}")
                        continue
                    if sym in SYMBOL_KIND:
                        objs.append((SYMBOL_KIND[sym], col, beat, None))
                    elif sym == "2":
                        if col in open_:
                            ch["problems"].append(f"head on column {col} before previous closed")
                        open_[col] = ("hold", beat)
                    elif sym == "4":
                        if col in open_:
                            ch["problems"].append(f"head on column {col} before previous closed")
                        open_[col] = ("roll", beat)
                    elif sym == "3":
                        if col not in open_:
                            ch["problems"].append(f"tail without head on column {col} measure {m}")
                        else:
                            kind, b0 = open_.pop(col)
                            objs.append((kind, col, b0, beat))
        if open_:
            ch["problems"].append(f"unclosed heads on columns {sorted(open_)}")
        ch.update(objs=objs, row_counts=row_counts, widths=sorted(widths))
        charts.append(ch)
    return dict(tags=tags, hdr=hdr, offset_ms=offset_ms, bpms=bpms, stops=stops, charts=charts, problems=problems)


def timeline(den: dict) -> RefBeats:
    return RefBeats(den["offset_ms"], den["bpms"])


def chart_objects_ms(den: dict, chart: dict):
    """[(kind, col, ms, length|None)] exact."""
    tl = timeline(den)
    out = []
    for kind, col, b0, b1 in chart["objs"]:
        t0 = tl.ms_of_beat(b0)
        out.append((kind, col, t0, None if b1 is None else tl.ms_of_beat(b1) - t0))
    return out
