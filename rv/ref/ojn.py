"""Independent OJN (O2Jam) struct-level builder and parser, written from the
format layout: 300-byte header, then per level `package_count` packages of
(int32 measure, int16 channel, int16 n) + n x 4 bytes.  Channel 1 = float32
tempo events (0 = none), channels 2..8 = notes of columns 0..6: (int16 value,
byte volume<<4|pan, byte type) with type 0 tap / 2 long-note head / 3 tail and
value 0 = empty slot.  Slot i of n sits at measure + i/n; 4 beats per measure;
times by exact integration over the header tempo and the tempo events."""
from __future__ import annotations

import struct
from fractions import Fraction as F

HEADER_FMT = "<i4sfif4h3i3i3i3ihh20sii64s32s32s32si3i3ii"
assert struct.calcsize(HEADER_FMT) == 300
FIELDS = ["song_id", "signature", "encode_version", "genre", "bpm", "level", "event_count", "note_count", "measure_count",
          "package_count", "old_encode_version", "old_song_id", "old_genre", "bmp_size", "old_file_version", "title", "artist",
          "creator", "ojm_file", "cover_size", "duration", "note_offset", "cover_offset"]


def cstr(b: bytes) -> str:
    return b.split(b"\x00", 1)[0].decode("ascii", errors="ignore")


def build_header(h: dict) -> bytes:
    pad = lambda s, n: s.encode("ascii")[:n].ljust(n, b"\x00")
    return struct.pack(
        HEADER_FMT, h["song_id"], pad(h["signature"], 4), h["encode_version"], h["genre"], h["bpm"], *h["level"], *h["event_count"],
        *h["note_count"], *h["measure_count"], *h["package_count"], h["old_encode_version"], h["old_song_id"], pad(h["old_genre"], 20),
        h["bmp_size"], h["old_file_version"], pad(h["title"], 64), pad(h["artist"], 32), pad(h["creator"], 32), pad(h["ojm_file"], 32),
        h["cover_size"], *h["duration"], *h["note_offset"], h["cover_offset"])


def build_package(measure: int, channel: int, slots: list) -> bytes:
    """slots: for channel 1 floats (0.0 = none); for note channels None or (value, volume, pan, type)."""
    out = struct.pack("<ihh", measure, channel, len(slots))
    for s in slots:
        if channel == 1:
            out += struct.pack("<f", s or 0.0)
        elif s is None:
            out += b"\x00\x00\x00\x00"
        else:
            v, vol, pan, typ = s
            out += struct.pack("<HBB", v & 0xFFFF, (vol << 4) | pan, typ)  # the value is 16 bits: any non-zero pattern is a note
    return out


def parse_ojn(b: bytes) -> dict:
    t = struct.unpack(HEADER_FMT, b[:300])
    hdr = dict(song_id=t[0], signature=cstr(t[1]), encode_version=t[2], genre=t[3], bpm=t[4], level=list(t[5:9]), event_count=list(t[9:12]),
               note_count=list(t[12:15]), measure_count=list(t[15:18]), package_count=list(t[18:21]), old_encode_version=t[21], old_song_id=t[22],
               old_genre=t[23], bmp_size=t[24], old_file_version=t[25], title=cstr(t[26]), artist=cstr(t[27]), creator=cstr(t[28]),
               ojm_file=cstr(t[29]), cover_size=t[30], duration=list(t[31:34]), note_offset=list(t[34:37]), cover_offset=t[37])
    pos = 300
    levels = []
    problems = []
    for n_pkg in hdr["package_count"]:
        tempo, notes = [], []   # (position Fraction, bpm) ; (position, column, volume, pan, type)
        frac_pkgs = 0
        for _ in range(n_pkg):
            if pos + 8 > len(b):
                problems.append("truncated")
                break
            measure, channel, n = struct.unpack("<ihh", b[pos:pos + 8])
            pos += 8
            data = b[pos:pos + 4 * n]
            pos += 4 * n
            for i in range(n):
                p = F(measure) + F(i, n)
                if channel == 1:
                    (v,) = struct.unpack("<f", data[4 * i:4 * i + 4])
                    if v != 0:
                        tempo.append((p, v))
                elif 2 <= channel <= 8:
                    val, vp, typ = struct.unpack("<hBB", data[4 * i:4 * i + 4])
                    if val != 0:
                        notes.append((p, channel - 2, vp >> 4, vp & 15, typ))
                elif channel == 0:
                    frac_pkgs += 1
        levels.append(dict(tempo=tempo, notes=notes, frac_pkgs=frac_pkgs))
    return dict(hdr=hdr, levels=levels, problems=problems)


def level_den(hdr_bpm: float, lvl: dict):
    """-> (hits [(col, ms, vol, pan)], holds [(col, ms, length, vol, pan)], tempo points [(ms, bpm)], problems)"""
    from rv.ref.timing import RefBeats

    problems = []
    tempo = sorted(lvl["tempo"], key=lambda x: x[0])
    # header tempo from measure 0; an event at position 0 simply follows it at the same time
    ch = [(F(0), F(hdr_bpm))]
    for p, v in tempo:
        ch.append((4 * p, F(v)))
    # RefBeats lets a later change on the same beat win, which is "applies from that position"
    tl = RefBeats(F(0), ch)
    hits, holds = [], []
    open_ = {}
    for p, col, vol, pan, typ in sorted(lvl["notes"], key=lambda x: x[0]):
        t = tl.ms_of_beat(4 * p)
        if typ == 0:
            hits.append((col, t, vol, pan))
        elif typ == 2:
            if col in open_:
                problems.append("head before previous closed")
            open_[col] = (t, vol, pan)
        elif typ == 3:
            if col not in open_:
                problems.append("tail without head")
                continue
            t0, v0, p0 = open_.pop(col)
            holds.append((col, t0, t - t0, v0, p0))
        else:
            problems.append(f"note type {typ}")
    if open_:
        problems.append("unclosed head")
    pts = [(F(0), F(hdr_bpm))] + [(tl.ms_of_beat(4 * p), F(v)) for p, v in tempo]
    return hits, holds, pts, problems
