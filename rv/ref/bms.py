"""Independent BMS/BME/PMS interpreter (lines -> denotation), written from the
format: header lines `#NAME value`, data lines `#mmmcc:xxyyzz..` with base-36
pairs (00 = rest) at position i/len of a 4-beat measure, tempo from #BPM,
channel 03 (hex bpm) and channel 08 (#BPMxx table), #LNOBJ closing the
time-preceding object of its lane, #WAVxx samples.  All lines are collected
first; nothing depends on the order of lines in the file.
"""
from __future__ import annotations

import re
from decimal import Decimal
from fractions import Fraction as F

from rv.ref.timing import RefBeats

DATA = re.compile(rb"^#(\d{3})([0-9A-Za-z]{2}):(.*)$")
VALID_DATA = re.compile(rb"^#\d{3}[0-9A-Za-z]{2}:([0-9A-Za-z]{2})+$")
VALID_HEADER = re.compile(rb"^#[A-Za-z][A-Za-z0-9]*( .*)?$")

LAYOUTS = {
    "BMS": {b"11": 0, b"12": 1, b"13": 2, b"14": 3, b"15": 4, b"16": 5, b"17": 6,
            b"21": 7, b"22": 8, b"23": 9, b"24": 10, b"25": 11, b"26": 12, b"27": 13},
    "BME": {b"16": 0, b"11": 1, b"12": 2, b"13": 3, b"14": 4, b"15": 5, b"18": 6, b"19": 7,
            b"21": 8, b"22": 9, b"23": 10, b"24": 11, b"25": 12, b"28": 13, b"29": 14, b"26": 15},
    "PMS": {b"11": 0, b"12": 1, b"13": 2, b"14": 3, b"15": 4, b"22": 5, b"23": 6, b"24": 7, b"25": 8},
    "PMS_BME": {b"11": 0, b"12": 1, b"13": 2, b"14": 3, b"15": 4, b"18": 5, b"19": 6, b"16": 7, b"17": 8,
                b"21": 9, b"22": 10, b"23": 11, b"24": 12, b"25": 13, b"28": 14, b"29": 15, b"26": 16, b"27": 17},
    "PMS_5B": {b"13": 0, b"14": 1, b"15": 2, b"22": 3, b"23": 4},
}


def to_bytes_lines(data):
    if isinstance(data, bytes):
        return data.replace(b"\r\n", b"\n").split(b"\n")
    return [ln.encode("shift_jis") if isinstance(ln, str) else ln for ln in data]


def parse_bms(data, lanes: dict) -> dict:
    """lanes: channel bytes -> column (note lanes only)."""
    problems = []
    hdr = {}
    hdr_order = []
    objs = []  # (measure, channel, pos in measure [0,1), id)
    time_sig_lines = 0
    for raw in to_bytes_lines(data):
        ln = raw.strip()
        if not ln or not ln.startswith(b"#"):
            continue
        m = DATA.match(ln)
        if m:
            meas, ch, seq = int(m.group(1)), m.group(2).upper(), m.group(3).strip()
            if ch == b"02":
                time_sig_lines += 1
                continue
            if len(seq) % 2 or not seq:
                problems.append(f"odd or empty data in {ln[:20]!r}")
                continue
            n = len(seq) // 2
            for i in range(n):
                p = seq[2 * i:2 * i + 2]
                if p != b"00":
                    objs.append((meas, ch, F(i, n), p))
        else:
            parts = ln[1:].split(b" ", 1)
            k = parts[0]
            # command names are case-insensitive; the 2-character ids of #WAVxx / #BPMxx are kept as written
            k = k[:3].upper() + k[3:] if len(k) == 5 and k[:3].upper() in (b"WAV", b"BPM") else k.upper()
            v = parts[1] if len(parts) > 1 else None
            if v is not None:
                hdr[k] = v
                hdr_order.append(k)
    wav = {k[3:]: v for k, v in hdr.items() if k.upper().startswith(b"WAV") and len(k) == 5}
    exb = {}
    for k, v in hdr.items():
        if k.upper().startswith(b"BPM") and len(k) == 5:
            exb[k[3:]] = F(Decimal(v.decode().strip()))
    if b"BPM" not in hdr:
        problems.append("no #BPM header")
        bpm0 = None
    else:
        bpm0 = F(Decimal(hdr[b"BPM"].decode().strip()))
    lnobj = hdr.get(b"LNOBJ")
    changes = [] if bpm0 is None else [(F(0), bpm0)]
    tempo_positions = []
    for meas, c, pos, p in objs:
        if c == b"03":
            changes.append((4 * (meas + pos), F(int(p, 16))))
            tempo_positions.append(4 * (meas + pos))
        elif c == b"08":
            if p not in exb:
                problems.append(f"undefined #BPM{p.decode()}")
                continue
            changes.append((4 * (meas + pos), exb[p]))
            tempo_positions.append(4 * (meas + pos))
    if len(set(tempo_positions)) != len(tempo_positions):
        problems.append("two tempo changes on one position")
    # header tempo first, so a change at beat 0 (later in the list) replaces it
    tl = RefBeats(F(0), changes) if changes else None
    per_lane = {}
    for meas, c, pos, p in objs:
        if c in lanes:
            per_lane.setdefault(lanes[c], []).append((4 * (meas + pos), p))
    hits, holds = [], []
    collisions = 0
    for col, lst in per_lane.items():
        lst.sort(key=lambda x: x[0])
        if len({b for b, _ in lst}) != len(lst):
            collisions += 1
        stack = []
        for beat, p in lst:
            if lnobj is not None and p == lnobj:
                if not stack:
                    problems.append(f"LNOBJ without a preceding object on column {col}")
                    continue
                hb, hp = stack.pop()
                holds.append((col, hb, beat, wav.get(hp, b"")))
            else:
                stack.append((beat, p))
        hits.extend((col, b, wav.get(p, b"")) for b, p in stack)
    return dict(hdr=hdr, wav=wav, exbpm=exb, bpm0=bpm0, lnobj=lnobj, timeline=tl, hits=hits, holds=holds,
                problems=problems, time_sig_lines=time_sig_lines, lane_collisions=collisions,
                tempo_beats=sorted(set(tempo_positions)), n_objects=len(objs))


def syntax_problems(data: bytes):
    """Writer-side check: every non-empty line is a header or a data line."""
    probs = []
    for raw in data.replace(b"\r\n", b"\n").split(b"\n"):
        ln = raw.rstrip(b"\r")
        if not ln.strip():
            continue
        if not (VALID_DATA.match(ln) or VALID_HEADER.match(ln)):
            probs.append(ln[:60])
    return probs
