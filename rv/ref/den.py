"""Uniform denotation of a chart file of any of the five formats, through the
independent references only: dict(objects=[(col, t0, t1|None)], tempo=[(ms, bpm)])
per chart, in file order."""
from __future__ import annotations

from fractions import Fraction as F


def den_osu(lines):
    from rv.ref import osu as ro

    d = ro.parse_osu(lines)
    objs = [(h["column"], float(h["offset"]), None) for h in d["hits"]] + [(h["column"], float(h["offset"]), float(h["offset"] + h["length"])) for h in d["holds"]]
    return [dict(objects=sorted(objs, key=lambda o: (o[0], o[1], -1.0 if o[2] is None else o[2])), tempo=sorted(((b["offset"], b["bpm"]) for b in d["bpms"]), key=lambda p: p[0]), problems=d["problems"], keys=d["keys"])]


def den_qua(text):
    import yaml

    doc = yaml.safe_load(text)
    objs = []
    for o in doc["HitObjects"]:
        t = float(o.get("StartTime", 0))
        objs.append((o.get("Lane", 1) - 1, t, float(o["EndTime"]) if "EndTime" in o else None))
    # time order; of two points at one time the one listed later is the one in force (file order kept)
    tempo = sorted(((float(b.get("StartTime", 0)), float(b["Bpm"])) for b in doc["TimingPoints"] if "Bpm" in b), key=lambda p: p[0])
    return [dict(objects=sorted(objs, key=lambda o: (o[0], o[1], -1.0 if o[2] is None else o[2])), tempo=tempo, problems=[], mode=doc.get("Mode"))]


def den_sm(text):
    from rv.ref import sm as rsm

    d = rsm.parse_sm(text)
    tl = rsm.timeline(d)
    out = []
    for ch in d["charts"]:
        objs = []
        for kind, col, t, ln in rsm.chart_objects_ms(d, ch):
            if kind == "hit":
                objs.append((col, float(t), None))
            elif kind == "hold":
                objs.append((col, float(t), float(t + ln)))
        out.append(dict(objects=sorted(objs, key=lambda o: (o[0], o[1], -1.0 if o[2] is None else o[2])), tempo=[(float(t), float(v)) for t, v, _ in tl.points()],
                        problems=list(d["problems"]) + ch["problems"], type=ch.get("type"),
                        other_kinds=sorted({k for k, *_ in ch.get("objs", []) if k not in ("hit", "hold")})))
    return out


def den_bms(data, lanes):
    from rv.ref import bms as rbms

    d = rbms.parse_bms(data, lanes)
    tl = d["timeline"]
    objs = [(c, float(tl.ms_of_beat(b)), None) for c, b, _ in d["hits"]] + [(c, float(tl.ms_of_beat(b0)), float(tl.ms_of_beat(b1))) for c, b0, b1, _ in d["holds"]]
    probs = list(d["problems"]) + (rbms.syntax_problems(data) if isinstance(data, bytes) else [])
    return [dict(objects=sorted(objs, key=lambda o: (o[0], o[1], -1.0 if o[2] is None else o[2])), tempo=[(float(t), float(v)) for t, v, _ in tl.points()], problems=probs)]


def den_ojn(b):
    from rv.ref import ojn as rojn

    d = rojn.parse_ojn(b)
    out = []
    for lvl in d["levels"]:
        h, ho, pts, probs = rojn.level_den(d["hdr"]["bpm"], lvl)
        objs = [(c, float(t), None) for c, t, _, _ in h] + [(c, float(t), float(t + ln)) for c, t, ln, _, _ in ho]
        out.append(dict(objects=sorted(objs, key=lambda o: (o[0], o[1], -1.0 if o[2] is None else o[2])), tempo=[(float(t), float(v)) for t, v in pts], problems=probs))
    return out


def step(tempo):
    """canonical step function: sorted, coincident points -> last wins, equal neighbours merged."""
    from rv.ref.timing import step_bpm

    return step_bpm(tempo)


def bpm_at(tempo, t):
    cur = tempo[0][1]
    for ms, v in tempo:
        if ms <= t:
            cur = v
        else:
            break
    return cur
