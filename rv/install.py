"""Attach monitors to the real reamber functions from the outside.

No edit of /repo is needed: class attributes are replaced in place; for
module-level functions every module attribute that `is` the original is
rebound (functions imported by name elsewhere) and evaluations are counted so
a bypassed wrapper shows up as zero events.
"""
from __future__ import annotations

import functools
import sys

from rv import core

_installed: set = set()


def patch_method(owner, name: str, make):
    """Replace owner.name by make(orig_callable) preserving static/classmethod.

    make(orig) receives a plain callable taking the same arguments the
    attribute takes when looked up on the class (self first for methods, cls
    first for classmethods) and must return one with the same signature.
    """
    key = (owner, name)
    if key in _installed:
        return
    raw = owner.__dict__.get(name)
    if raw is None:
        # defined on a base class (or moved there by a refactor): wrap what the class actually resolves to
        import inspect

        if not hasattr(owner, name):
            if core._CTX is not None:
                core._CTX.counters[f"install.missing.{owner.__name__}.{name}"] += 1
            return
        raw = inspect.getattr_static(owner, name)
    if isinstance(raw, staticmethod):
        wrapped = staticmethod(make(raw.__func__))
    elif isinstance(raw, classmethod):
        wrapped = classmethod(make(raw.__func__))
    else:
        wrapped = make(raw)
    setattr(owner, name, wrapped)
    _installed.add(key)


def patch_function(module, name: str, make):
    """Rebind a module-level function everywhere it was imported by name."""
    orig = getattr(module, name, None)
    if orig is None:
        if core._CTX is not None:
            core._CTX.counters[f"install.missing.{module.__name__}.{name}"] += 1
        return 0
    key = (module.__name__, name)
    if key in _installed:
        return
    new = make(orig)
    n = 0
    for m in list(sys.modules.values()):
        if m is None or not getattr(m, "__name__", "").startswith("reamber"):
            continue
        for attr, val in list(vars(m).items()):
            if val is orig:
                setattr(m, attr, new)
                n += 1
    _installed.add(key)
    return n


def monitor(name: str, judge):
    """Build a make() for patch_*: runs the real function, then hands
    (args, kwargs, result, exception) to judge unless monitors are quiet.

    judge(ctx, args, kwargs, result, exc, pre) -> None ; `pre` is whatever
    judge.pre(ctx, args, kwargs) returned before the call (snapshots).
    The wrapper is passive: it never raises into the program and never
    swallows the program's own exception.
    """

    def make(orig):
        @functools.wraps(orig)
        def wrapper(*args, **kwargs):
            ctx = core._CTX
            if ctx is None or ctx.quiet_depth > 0:
                return orig(*args, **kwargs)
            ctx.seen(name)
            pre = None
            if hasattr(judge, "pre"):
                try:
                    with ctx.quiet():
                        pre = judge.pre(ctx, args, kwargs)
                except Exception as e:
                    ctx.counters[f"{name}|monitor_error"] += 1
                    if len(ctx.notes) < 20:
                        ctx.notes.append(f"{name} pre error: {core.short_tb(e)}")
            exc = None
            result = None
            # nested monitored calls made by the real function ARE judged
            # (compositions are observed for free); only the oracle is quiet.
            try:
                result = orig(*args, **kwargs)
            except Exception as e:
                exc = e
            try:
                with ctx.quiet():
                    judge(ctx, args, kwargs, result, exc, pre)
            except Exception as e:
                ctx.counters[f"{name}|monitor_error"] += 1
                ctx.counters["harness.error"] += 1
                if len(ctx.notes) < 20:
                    ctx.notes.append(f"{name} judge error: {core.short_tb(e)}")
            if exc is not None:
                raise exc
            return result

        wrapper.__wrapped_by_rv__ = name
        return wrapper

    return make
