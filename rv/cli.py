from __future__ import annotations

import argparse
import os
import sys


def main():
    ap = argparse.ArgumentParser()
    ap.add_argument("prop")
    ap.add_argument("--tier", default=os.environ.get("VERIF_TIER", "quick"), choices=["quick", "thorough"])
    ap.add_argument("--seed", type=int, default=int(os.environ.get("VERIF_SEED", "0")))
    ap.add_argument("--replay", default=None)
    a = ap.parse_args()
    from rv import driver

    sys.exit(driver.main(a.prop, a.tier, a.seed, a.replay))


if __name__ == "__main__":
    main()
