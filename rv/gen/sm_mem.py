"""Generator of in-memory StepMania mapsets whose objects sit on the snap grid
of their own tempo list (the domain of C03)."""
from __future__ import annotations

from fractions import Fraction as F

from rv.ref.timing import DEFAULT_DIVISIONS, RefBeats

TYPES = [("dance-single", 4), ("dance-double", 8), ("dance-solo", 6), ("dance-threepanel", 3),
         ("dance-couple", 4), ("dance-routine", 8), ("kb7-single", 7)]
SAFE = ["Caravan", "Gravity", "夜", "Ünï", "a b", "x_y-z", "", "bg.png", "song.ogg", "2nd"]
KINDS1 = ["hit", "hit", "hit", "mine", "lift", "fake", "keysound"]


def fs(x):
    x = F(x)
    return f"{x.numerator}/{x.denominator}"


def gen_objects(rng, keys, n_beats, divs, density, start_beat=0):
    """Per column a sequence of non-overlapping objects on k/d beats."""
    objs = []
    for col in range(keys):
        b = F(start_beat) + F(rng.randint(0, 3), rng.choice([1, 2, 4]))
        while b < n_beats:
            if rng.random() < density:
                if rng.random() < 0.65:
                    objs.append([rng.choice(KINDS1), col, fs(b), None])
                    end = b
                else:
                    end = b + F(rng.randint(1, 4 * rng.choice([1, 2, 3, 4])), rng.choice(divs))
                    objs.append([rng.choice(["hold", "hold", "roll"]), col, fs(b), fs(end)])
                    if rng.random() < 0.2:
                        mid = (b + end) / 2   # e.g. a mine on the held column, between head and tail
                        objs.append([rng.choice(["mine", "mine", "hit", "fake"]), col, fs(mid), None])
                b = end
            d = rng.choice(divs)
            b = b + F(rng.randint(1, 2 * d), d)
            # keep positions on a single division (k/d) so that they are representable
            fr = b % 1
            if not any((fr * dd).denominator == 1 for dd in DEFAULT_DIVISIONS):
                b = F(int(b)) + F(round(fr * d), d)
    # make every position representable: snap each to its own k/d with d declared
    out = []
    seen = set()
    for kind, col, b0, b1 in objs:
        ok = True
        for x in (b0, b1):
            if x is None:
                continue
            fr = F(x) % 1
            if not any((fr * dd).denominator == 1 for dd in DEFAULT_DIVISIONS):
                ok = False
        if not ok:
            continue
        cells = [(F(b0), col)] + ([(F(b1), col)] if b1 else [])
        if any(c in seen for c in cells):
            continue
        seen.update(cells)
        out.append([kind, col, b0, b1])
    return out


def gen_spec(rng, cls):
    n_charts = rng.choice([1, 1, 2, 3])
    n_beats = 4 * rng.randint(1, 6)
    if cls == "tempo_on_measure_lines" or cls in ("selectable_false", "leading_empty_measures", "big_lcm", "unsorted", "odd_mix", "write_edit_write"):
        tb = sorted({F(0)} | {F(4 * rng.randint(1, max(1, n_beats // 4))) for _ in range(rng.choice([0, 1, 2, 4]))})
    elif cls == "tempo_off_measure":
        # also positions the snap grid has but a 1/48-beat row grid has not (1/5, 1/7, 1/9, 1/32, 1/64, 1/96)
        tb = sorted({F(0)} | {F(rng.randint(1, n_beats * 4), rng.choice([1, 2, 3, 4, 6, 8, 5, 7, 9, 32, 64, 96])) for _ in range(rng.choice([1, 2, 4]))})
    else:
        tb = [F(0)]
    vals = [120.0, 150.0, 90.0, 180.5, 173.25, 60.0, 200.0, 139.86013986013987, 240.0]
    tempo = [[fs(b), rng.choice(vals)] for b in tb]
    if cls == "tempo_off_measure" and rng.random() < 0.4:
        for i, t in enumerate(tempo):
            t[1] = [60.0, 480.0, 45.0, 360.0][i % 4]   # large tempo ratios: an error in a change's position is magnified afterwards
    offset = rng.choice([0.0, 375.0, -1250.0, 12.5, 1.0])
    divs = [1, 2, 3, 4, 6, 8, 12, 16] if cls != "big_lcm" else [5, 7, 9, 64, 96, 32]
    if cls == "odd_mix":
        divs = rng.choice([[7, 3], [7, 6], [7, 12], [7, 3, 6, 12], [5, 9], [5, 9, 3]])  # 84 / 168 / 336 / 180 / 360 rows per measure
    charts = []
    for _ in range(n_charts):
        ctype, keys = rng.choice(TYPES)
        start = 8 if cls == "leading_empty_measures" else 0
        objs = gen_objects(rng, keys, n_beats + start, divs, rng.choice([0.3, 0.6, 0.9]), start)
        if cls == "unsorted":
            rng.shuffle(objs)
        if rng.random() < 0.1:
            objs = []  # a difficulty that is set up but not stepped yet is a chart all the same
        charts.append(dict(type=ctype, desc=rng.choice(SAFE + ["K. Ward's edit v2 final", "a description of more than twelve characters"]), diff=rng.choice(["Easy", "Hard", "Edit", "Challenge"]),
                           meter=rng.randint(1, 25), objects=objs))
    hdr = {k: rng.choice(SAFE) for k in ["title", "subtitle", "artist", "title_translit", "subtitle_translit",
                                          "artist_translit", "genre", "credit", "banner", "background",
                                          "lyrics_path", "cd_title", "music", "display_bpm", "bg_changes", "fg_changes"]}
    return dict(cls=cls, offset=offset, tempo=tempo, charts=charts, header=hdr,
                selectable=False if cls == "selectable_false" else rng.choice([True, True, False]),
                sample_start=rng.choice([0.0, 12500.0, 30000.0, -1.0, -2500.0]), sample_length=rng.choice([10.0, 15500.0]))


def build(spec):
    from reamber.sm.SMBpm import SMBpm
    from reamber.sm.SMFake import SMFake
    from reamber.sm.SMHit import SMHit
    from reamber.sm.SMHold import SMHold
    from reamber.sm.SMKeySound import SMKeySound
    from reamber.sm.SMLift import SMLift
    from reamber.sm.SMMap import SMMap
    from reamber.sm.SMMapSet import SMMapSet
    from reamber.sm.SMMine import SMMine
    from reamber.sm.SMRoll import SMRoll
    from reamber.sm.lists.SMBpmList import SMBpmList
    from reamber.sm.lists.notes import (SMFakeList, SMHitList, SMHoldList, SMKeySoundList, SMLiftList,
                                        SMMineList, SMRollList)

    tl = RefBeats(F(spec["offset"]), [(F(b), F(v)) for b, v in spec["tempo"]])
    ms = SMMapSet()
    for k, v in spec["header"].items():
        setattr(ms, k, v)
    ms.offset = float(spec["offset"])
    ms.selectable = spec["selectable"]
    ms.sample_start = spec["sample_start"]
    ms.sample_length = spec["sample_length"]
    kinds = dict(hit=(SMHit, SMHitList, "hits"), mine=(SMMine, SMMineList, "mines"), lift=(SMLift, SMLiftList, "lifts"),
                 fake=(SMFake, SMFakeList, "fakes"), keysound=(SMKeySound, SMKeySoundList, "keysounds"),
                 hold=(SMHold, SMHoldList, "holds"), roll=(SMRoll, SMRollList, "rolls"))
    maps = []
    for ch in spec["charts"]:
        sm = SMMap()
        sm.chart_type = ch["type"]
        sm.description = ch["desc"]
        sm.difficulty = ch["diff"]
        sm.difficulty_val = ch["meter"]
        rows_ = [SMBpm(float(tl.ms_of_beat(F(b))), float(v)) for b, v in spec["tempo"]]
        if spec.get("cls") == "unsorted":
            rows_ = rows_[::-1]  # tempo rows not stored in time order
        sm.bpms = SMBpmList(rows_)
        buckets = {k: [] for k in kinds}
        for kind, col, b0, b1 in ch["objects"]:
            t0 = float(tl.ms_of_beat(F(b0)))
            if b1 is None:
                buckets[kind].append(kinds[kind][0](t0, col))
            else:
                buckets[kind].append(kinds[kind][0](t0, col, float(tl.ms_of_beat(F(b1))) - t0))
        for kind, items in buckets.items():
            if items:
                setattr(sm, kinds[kind][2], kinds[kind][1](items))
        maps.append(sm)
    ms.maps = maps
    return ms
