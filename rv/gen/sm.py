"""Seeded generator of StepMania .sm texts (and of the facts needed to build
in-memory mapsets on the snap grid)."""
from __future__ import annotations

from fractions import Fraction as F

ROWS = [4, 8, 12, 16, 20, 24, 28, 32, 48, 64, 96, 192, 36, 40, 44, 256, 384, 768]  # any multiple of 4; the last three are finer than the 1/48-beat grid
TYPES = [("dance-single", 4), ("dance-double", 8), ("dance-solo", 6), ("dance-threepanel", 3),
         ("dance-couple", 4), ("dance-routine", 8), ("kb7-single", 7),
         ("pump-single", 5), ("pnm-nine", 9), ("bm-double5", 10), ("techno-double8", 16), ("custom-18k", 18)]
WORDS = ["Caravan", "Gravity", "Escapes", "夜", "Ünïcode", "a b", "x_y-z", "Evening", "2nd mix", "", "bg.png", "song.ogg", "N/A?"]
SINGLES = "1MLFK"


def word(rng):
    return rng.choice(WORDS)


def fmt_dec(x: F, places=None) -> str:
    """Decimal text of a fraction; exact when places is None (must terminate)."""
    if places is None:
        d = x.denominator
        while d % 2 == 0:
            d //= 2
        while d % 5 == 0:
            d //= 5
        assert d == 1, x
        s = f"{float(x):.10f}".rstrip("0").rstrip(".")
        return s if s else "0"
    return f"{float(x):.{places}f}"


def gen_chart_rows(rng, keys, n_measures, density=0.25, row_choices=ROWS):
    """measures: list of list of row strings.  Holds/rolls span freely."""
    counts = [rng.choice(row_choices[:7]) if rng.random() < 0.7 else rng.choice(row_choices) for _ in range(n_measures)]
    grid = [[["0"] * keys for _ in range(c)] for c in counts]
    flat = [(m, r) for m, c in enumerate(counts) for r in range(c)]
    for col in range(keys):
        i = 0
        while i < len(flat):
            if rng.random() < density:
                m, r = flat[i]
                x = rng.random()
                if x < 0.55 or i + 1 >= len(flat):
                    grid[m][r][col] = rng.choice("1111" + SINGLES)
                    i += 1
                else:
                    j = min(len(flat) - 1, i + rng.randint(1, max(1, min(len(flat) - i - 1, counts[m] * 2))))
                    grid[m][r][col] = rng.choice("24")
                    m2, r2 = flat[j]
                    grid[m2][r2][col] = "3"
                    if j - i >= 2 and rng.random() < 0.25:
                        m3, r3 = flat[rng.randint(i + 1, j - 1)]
                        grid[m3][r3][col] = rng.choice("M1MLFK")  # e.g. a mine on a held column: an object like any other
                    i = j + 1
            else:
                i += 1
    return [["".join(row) for row in meas] for meas in grid]


def gen_bpms(rng, total_beats, cls):
    """[(beat Fraction, text of beat, bpm text)] first at beat 0."""
    vals = ["120", "150", "90", "180.5", "173.25", "60", "200", "139.86013986013987", "240", "99.999"]
    n = rng.choice([1, 1, 2, 3, 4, 6])
    out = [(F(0), rng.choice(["0", "0.0", "0.000"]), rng.choice(vals))]
    used = {F(0)}
    for _ in range(n - 1):
        if cls == "thirds3":
            b = F(rng.randint(1, max(1, int(total_beats) * 3)), 3)
            places = rng.choice([3, 6])
            txt = fmt_dec(b, places) if b.denominator != 1 else fmt_dec(b)
        elif cls == "measure_lines":
            b = F(4 * rng.randint(1, max(1, int(total_beats) // 4)))
            txt = fmt_dec(b) + rng.choice(["", ".0", ".000"]) if b.denominator == 1 else fmt_dec(b)
        else:
            b = F(rng.randint(1, max(1, int(total_beats) * 16)), 16)
            txt = fmt_dec(b)
            if rng.random() < 0.3 and "." in txt:
                txt = txt + "0" * rng.randint(1, 2)
        if b in used:
            continue
        used.add(b)
        out.append((b, txt, rng.choice(vals)))
    rng.shuffle(out) if rng.random() < 0.15 else None
    return out


def gen_text(rng, cls="plain", max_measures=6):
    """Returns (text, facts).  cls in: plain, thirds3, measure_lines,
    hostile_trailing, hostile_colon, hostile_comma, no_stops_tag, many_charts."""
    n_charts = rng.choice([1, 1, 2, 3, 4]) if cls != "many_charts" else rng.randint(3, 4)
    n_meas = [rng.randint(1, max_measures) for _ in range(n_charts)]
    total_beats = 4 * max(n_meas)
    bcls = cls if cls in ("thirds3", "measure_lines") else rng.choice(["sixteenths", "sixteenths", "measure_lines"])
    bpms = gen_bpms(rng, total_beats, bcls)
    offset = rng.choice(["0", "-0.375", "1.25", "0.000", "-12.5", "0.0625", "-0.001"])
    hdr = {
        "TITLE": word(rng), "SUBTITLE": word(rng), "ARTIST": word(rng), "TITLETRANSLIT": word(rng),
        "SUBTITLETRANSLIT": word(rng), "ARTISTTRANSLIT": word(rng), "GENRE": word(rng), "CREDIT": word(rng),
        "BANNER": word(rng), "BACKGROUND": word(rng), "LYRICSPATH": word(rng), "CDTITLE": word(rng),
        "MUSIC": word(rng),
    }
    lines = []
    if rng.random() < 0.3:
        lines.append("// generated file" if cls != "hostile_colon" else "// note: generated; do not edit")
    for k, v in hdr.items():
        lines.append(f"#{k}:{v};")
    lines.append(f"#OFFSET:{offset};")
    sep = rng.choice([",", ",\n"])
    lines.append("#BPMS:" + sep.join(f"{t}={v}" for _, t, v in bpms) + ";")
    if cls != "no_stops_tag":
        lines.append("#STOPS:;")
    ss = rng.choice(["0", "12.5", "30.000"])
    sl = rng.choice(["10", "15.5", "0.0"])
    sel = rng.choice(["YES", "NO"])
    lines += [f"#SAMPLESTART:{ss};", f"#SAMPLELENGTH:{sl};", f"#DISPLAYBPM:{rng.choice(['', '120', '*', '90-180'])};",
              f"#SELECTABLE:{sel};", f"#BGCHANGES:{rng.choice(['', '0.000=bg.avi=1.000=1=0=0'])};", "#FGCHANGES:;"]
    if rng.random() < 0.3:
        # the order of the header tags is free (editors write #OFFSET before #BPMS; nothing requires it)
        first = 1 if lines and lines[0].startswith("//") else 0
        tags = lines[first:]
        rng.shuffle(tags)
        lines = lines[:first] + tags
    charts = []
    for ci in range(n_charts):
        ctype, keys = rng.choice(TYPES)
        meas = gen_chart_rows(rng, keys, n_meas[ci], density=rng.choice([0.08, 0.2, 0.4]))
        desc = rng.choice(["", "Evening", "a b", "K. Ward"])
        diff = rng.choice(["Beginner", "Easy", "Medium", "Hard", "Challenge", "Edit"])
        meter = str(rng.randint(1, 30))
        radar = ",".join(rng.choice(["0", "0.5", "1.000", "0.733800"]) for _ in range(rng.choice([5, 5, 5, 10, 14])))  # StepMania 5 writes more than five
        charts.append(dict(type=ctype, keys=keys, desc=desc, diff=diff, meter=meter, radar=radar, measures=meas))
        if rng.random() < 0.7:
            lines.append(f"//---------------{ctype} - {desc}----------------")
        if cls == "hostile_colon" and ci == 0:
            lines.append("// chart 1: main; by me")
        lines.append("#NOTES:")
        ind = rng.choice(["     ", "", "  "])
        for fld in (ctype, desc, diff, meter, radar):
            lines.append(f"{ind}{fld}:")
        body = []
        for m, rows in enumerate(meas):
            ml = []
            if rng.random() < 0.3:
                ml.append(f"  // measure {m}")
            for r, row in enumerate(rows):
                if cls == "hostile_trailing" and m == 0 and r == 1:
                    row = row + " // beat 2"
                ml.append(row)
                if rng.random() < 0.03:
                    ml.append("")
            if cls == "hostile_comma" and m == 0:
                ml.append("// one, two, three")
            body.append("\n".join(ml))
        lines.append("\n,\n".join(body) if rng.random() < 0.7 else ",\n".join(body))
        lines.append(";")
        if rng.random() < 0.5:
            lines.append("")
    text = "\n".join(lines) + "\n"
    facts = dict(n_charts=n_charts, bpm_class=bcls)
    return text, facts
