"""Seeded generator of in-memory charts of all five games + operation histories.

A *spec* is a JSON-able dict, so a case can be written to a replay file and
rebuilt: build(spec) returns a Map (osu, qua, bms) or a MapSet (sm, o2j).
Used by C08, C12-C17, C19 (anything quantified over "all charts of all games
and all histories").
"""
from __future__ import annotations

import random

GAMES = ["osu", "qua", "sm", "bms", "o2j"]
MAPSET_GAMES = ("sm", "o2j")

TEXTS = ["Caravan", "夜に駆ける", "Ünïcode", "a b c", "x_y-z", "", "Re:Title", "2nd", "A, B & C", "élan vital"]
# osu / Quaver metadata only (StepMania ends a value at "//" or ";", BMS is Shift-JIS): values with a comment marker inside,
# and the line-break characters of Unicode that are not line breaks of these formats
OSU_QUA_TEXTS = TEXTS + ["http://example.com/ost", "7K // Another", "NEL\x85here", "Line\u2028Sep", "tab\there", "Insane [7K]", "[Extended]"]
ASCII_TEXTS = ["Caravan", "a b c", "x_y-z", "", "2nd", "Title", "Some Artist"]
FILES = ["hit.wav", "clap.ogg", "snare 2.wav", "kick.wav", "a-b_c.wav", "x.ogg"]
BPMS = [60.0, 90.0, 100.0, 120.0, 128.0, 150.0, 173.25, 174.0, 180.5, 200.0, 222.22, 240.0, 300.0, 180.0018, 150.001, 150.004, 139.99969]

SM_TYPES = {3: "dance-threepanel", 4: "dance-single", 6: "dance-solo", 7: "kb7-single", 8: "dance-double"}
SM_NOTE_LISTS = ["hits", "holds", "rolls", "mines", "lifts", "fakes", "keysounds"]


def _offsets(rng, n, style):
    """n offsets.  style: int_ms | frac | grid | neg | dup"""
    out = []
    t = {"neg": -rng.randint(0, 3000), "int_ms": rng.randint(0, 2000), "frac": rng.uniform(0, 500),
         "grid": 0.0, "dup": float(rng.randint(0, 500))}[style]
    for _ in range(n):
        if style == "grid":
            t += rng.choice([125.0, 250.0, 500.0, 62.5, 1000.0, 375.0])
        elif style == "frac":
            t += rng.choice([rng.uniform(0.01, 400), 1 / 3 * 100, 0.5, 250.25])
        elif style == "dup":
            t += rng.choice([0.0, 0.0, 100.0, 250.0])
        else:
            t += rng.randint(1, 600)
        out.append(float(t))
    return out


def gen_notes(rng, keys, n, style, with_holds=True, chord_p=0.25):
    """hits [(offset, col)], holds [(offset, col, length)]; may stack/overlap freely
    (the library imposes no playability constraint on in-memory charts)."""
    hits, holds = [], []
    offs = _offsets(rng, n, style)
    for t in offs:
        cols = [rng.randrange(keys)]
        while rng.random() < chord_p and len(cols) < keys:
            c = rng.randrange(keys)
            if c not in cols:
                cols.append(c)
        for c in cols:
            if with_holds and rng.random() < 0.3:
                ln = rng.choice([1.0, 50.0, 125.0, 250.0, 500.0, 1234.5, rng.uniform(1, 900)])
                holds.append([t, c, float(ln)])
            else:
                hits.append([t, c])
    return hits, holds


def gen_bpms(rng, t0, t_end, n, style="any", distinct=True):
    """[(offset, bpm, metronome)] with the first at t0 (<= every object)."""
    pts = [float(t0)]
    span = max(1.0, t_end - t0)
    for _ in range(n - 1):
        if style == "int_ms":
            pts.append(float(t0 + rng.randint(1, int(span) + 1)))
        else:
            pts.append(float(t0 + rng.uniform(1, span)))
    pts = sorted(set(pts)) if distinct else sorted(pts)
    vals = rng.sample(BPMS, min(len(pts), len(BPMS))) if rng.random() < 0.6 else [rng.choice(BPMS) for _ in pts]
    while len(vals) < len(pts):
        vals.append(rng.choice(BPMS))
    return [[t, float(v), 4] for t, v in zip(pts, vals)]


def gen_chart(rng, game, keys=None, n=None, style=None, n_bpm=None, empty_p=0.12):
    valid = {"osu": range(1, 19), "qua": (4, 7, 8), "sm": (3, 4, 6, 7, 8), "bms": range(1, 10), "o2j": (7,)}[game]
    if keys not in valid:
        keys = None
    keys = keys or {"osu": rng.choice([1, 4, 4, 5, 7, 7, 8, 10, 18]), "qua": rng.choice([4, 7, 8]),
                    "sm": rng.choice([3, 4, 4, 6, 7, 8]), "bms": rng.choice([6, 8, 9]), "o2j": 7}[game]
    # sizes beyond the usual small ones: thresholds at which an implementation might switch strategy (64, 128 rows)
    n = rng.choice([0, 1, 2, 5, 12, 25, 1, 2, 5, 12, 25, 70, 140]) if n is None else n
    style = style or rng.choice(["int_ms", "frac", "grid", "neg", "dup"])
    hits, holds = gen_notes(rng, keys, n, style)
    if rng.random() < empty_p:
        holds = []
    if rng.random() < empty_p / 2:
        hits = []
    times = [h[0] for h in hits] + [h[0] for h in holds] + [h[0] + h[2] for h in holds]
    t_min, t_max = (min(times), max(times)) if times else (0.0, 1000.0)
    t0 = t_min - rng.choice([0.0, 0.0, 10.0, 500.0])
    n_bpm = n_bpm or rng.choice([1, 1, 2, 3, 5])
    ch = dict(keys=keys, hits=hits, holds=holds, bpms=gen_bpms(rng, t0, max(t_max, t0 + 1000), n_bpm))
    if game in ("osu", "qua"):
        ch["svs"] = [[float(rng.uniform(t0, t_max + 10)) if rng.random() < 0.7 else float(rng.choice(ch["bpms"])[0]),
                      rng.choice([0.5, 1.0, 1.5, 2.0, 0.75, 10.0, 0.01, rng.uniform(0.1, 4), 50.0, 0.001, -1.0, 5e-05, 1e16])]
                     for _ in range(rng.choice([0, 0, 1, 3, 8]))]
    if game == "osu":
        ch["hit_x"] = [[rng.randrange(16), rng.randrange(4), rng.randrange(4), rng.randrange(3), rng.choice([0, 30, 70, 100]),
                        rng.choice(["", "", "", rng.choice(FILES)])] for _ in hits]
        ch["hold_x"] = [[rng.randrange(16), rng.randrange(4), rng.randrange(4), rng.randrange(3), rng.choice([0, 30, 70, 100]),
                         rng.choice(["", "", rng.choice(FILES)])] for _ in holds]
        ch["bpm_x"] = [[rng.randrange(4), rng.randrange(3), rng.choice([5, 50, 100]), rng.random() < 0.3] for _ in ch["bpms"]]
        ch["sv_x"] = [[rng.randrange(4), rng.randrange(3), rng.choice([5, 50, 100]), rng.random() < 0.3] for _ in ch["svs"]]
        ch["samples"] = [[float(rng.uniform(t0, t_max)), rng.choice(FILES), rng.choice([10, 70, 100])]
                         for _ in range(rng.choice([0, 0, 2, 5]))]
        ch["meta"] = dict(title=rng.choice(OSU_QUA_TEXTS), title_unicode=rng.choice(OSU_QUA_TEXTS), artist=rng.choice(OSU_QUA_TEXTS),
                          artist_unicode=rng.choice(OSU_QUA_TEXTS), creator=rng.choice(ASCII_TEXTS), version=rng.choice(ASCII_TEXTS + ["Hard 5"]),
                          audio_file_name=rng.choice(["audio.mp3", "song file.ogg"]), background_file_name=rng.choice(["bg.png", "", "b g.jpg", "stage, final (1920x1080).jpg"]),
                          preview_time=rng.choice([-1, 0, 12345, 60000]), circle_size=float(keys),
                          tags=rng.choice([[], ["a", "b"], ["tag"], ["東方\u3000Project", "x"], ["no\u00a0break"], ["a//b", "c"]]), source=rng.choice(ASCII_TEXTS + ["http://example.com/ost"]),
                          # file-level fields away from their defaults (none of them is a time of the chart)
                          audio_lead_in=rng.choice([0, 0, 1500]), slider_multiplier=rng.choice([1.4, 1.4, 1.8, 0.7]), hp_drain_rate=rng.choice([5.0, 8.0]),
                          overall_difficulty=rng.choice([5.0, 7.5]), stack_leniency=rng.choice([0.7, 0.3]), beat_divisor=rng.choice([4, 7]))
    elif game == "qua":
        # key sounds as the format has them (a list of {Sample, Volume} records; 100 is the format's default volume) or as plain labels
        ks = [[], [], ["a"], ["a", "b"], [{"Sample": 1, "Volume": 100}], [{"Sample": 2, "Volume": 50}, {"Sample": 3, "Volume": 100}]]
        ch["hit_x"] = [[[dict(d) if isinstance(d, dict) else d for d in rng.choice(ks)]] for _ in hits]
        ch["hold_x"] = [[[dict(d) if isinstance(d, dict) else d for d in rng.choice(ks[:2] + [["k"]] + ks[4:])]] for _ in holds]
        ch["meta"] = dict(title=rng.choice(OSU_QUA_TEXTS), artist=rng.choice(OSU_QUA_TEXTS), creator=rng.choice(ASCII_TEXTS),
                          difficulty_name=rng.choice(ASCII_TEXTS), audio_file=rng.choice(["audio.mp3", "a b.ogg"]),
                          background_file=rng.choice(["bg.png", ""]), song_preview_time=rng.choice([0, 1234]),
                          mode={4: "Keys4", 7: "Keys7", 8: "Keys8"}.get(keys, "Keys4"), tags=rng.choice([[], ["x", "y"]]),
                          source=rng.choice(ASCII_TEXTS), description=rng.choice(ASCII_TEXTS),
                          initial_scroll_velocity=rng.choice(["", "", 1.0, 0.5, 2.0]), genre=rng.choice(["", "", "Trance", "Drum & Bass"]))  # a header field: not a scroll-velocity point
    elif game == "bms":
        ids = [b"01", b"02", b"0A", b"ZY", b"1F"]
        ch["hit_x"] = [[rng.choice([b"", b"", b"hit.wav", b"k.ogg"])] for _ in hits]
        ch["hold_x"] = [[rng.choice([b"", b"hit.wav"])] for _ in holds]
        ch["meta"] = dict(title=rng.choice([b"Title", b"a b", b""]), artist=rng.choice([b"Artist", b""]),
                          version=rng.choice([b"7", b"12", b"Hard"]), samples={i: rng.choice([b"hit.wav", b"k.ogg", b"x.wav"]) for i in rng.sample(ids, rng.randint(0, 3))})
    elif game == "o2j":
        ch["hit_x"] = [[rng.randrange(16), rng.randrange(16)] for _ in hits]
        ch["hold_x"] = [[rng.randrange(16), rng.randrange(16)] for _ in holds]
    elif game == "sm":
        # the other seven-kind lists
        extra = {}
        for kind in ("mines", "lifts", "fakes", "keysounds"):
            if rng.random() < 0.3:
                h2, _ = gen_notes(rng, keys, rng.choice([1, 3]), style, with_holds=False)
                extra[kind] = h2
        if rng.random() < 0.3:
            _, r2 = gen_notes(rng, keys, 4, style)
            extra["rolls"] = r2
        if rng.random() < 0.25:
            extra["stops"] = [[float(rng.uniform(t0, t_max + 10)), rng.choice([100.0, 250.0, 600.0])] for _ in range(rng.randint(1, 3))]
        ch["extra"] = extra
        ch["meta"] = dict(chart_type=SM_TYPES[keys], description=rng.choice(ASCII_TEXTS), difficulty=rng.choice(["Easy", "Hard", "Edit"]),
                          difficulty_val=rng.randint(1, 20))
    return ch


def gen_spec(rng, game=None, **kw):
    game = game or rng.choice(GAMES)
    spec = dict(game=game, via=rng.choice(["items", "items", "from_dict", "df"]), int_values=rng.random() < 0.2)
    if game in MAPSET_GAMES:
        nch = 3 if game == "o2j" else rng.choice([1, 1, 2, 3])
        first = gen_chart(rng, game, **kw)
        charts = [first]
        for _ in range(nch - 1):
            c = gen_chart(rng, game, **kw)
            if game == "sm":
                c["bpms"] = first["bpms"]  # charts of a .sm share the tempo list
            charts.append(c)
        if len(charts) > 1 and rng.random() < 0.15:
            # two difficulties with the same content (an easier level that was never differentiated) stay two charts
            import copy
            charts[1] = copy.deepcopy(charts[0])
            if game == "sm" and "meta" in charts[1]:
                charts[1]["meta"] = dict(charts[1]["meta"], difficulty="Edit", difficulty_val=1 + int(charts[0]["meta"].get("difficulty_val", 1)) % 20)
        spec["charts"] = charts
        if game == "sm":
            spec["meta"] = dict(title=rng.choice(TEXTS), artist=rng.choice(TEXTS), credit=rng.choice(ASCII_TEXTS),
                                title_translit=rng.choice(ASCII_TEXTS), artist_translit=rng.choice(ASCII_TEXTS), music=rng.choice(["a.ogg", "song.mp3"]),
                                background=rng.choice(["bg.png", ""]), offset=float(first["bpms"][0][0]),
                                sample_start=rng.choice([0.0, 12500.0, -1.0, -2500.0]), sample_length=rng.choice([10.0, 15500.0]))
        else:
            spec["meta"] = dict(title=rng.choice(TEXTS), artist=rng.choice(TEXTS), creator=rng.choice(ASCII_TEXTS),
                                bpm=float(first["bpms"][0][1]), level=[rng.randint(1, 30) for _ in range(4)], genre=rng.randrange(11),
                                song_id=rng.randint(1, 9999))
    else:
        spec["charts"] = [gen_chart(rng, game, **kw)]
    return spec


# ---------------------------------------------------------------------------

INT_VALUES = False  # set by build(): whole numbers are given as Python ints, so the columns get integer dtypes


def _mk_list(ListCls, ItemCls, rows, names, via):
    """rows: list of value lists in the order of `names`."""
    if not rows:
        return ListCls([])
    if INT_VALUES:
        rows = [[int(v) if isinstance(v, float) and v.is_integer() else v for v in r] for r in rows]
    if via == "from_dict":
        return ListCls.from_dict([dict(zip(names, r)) for r in rows])
    items = [ItemCls(**dict(zip(names, r))) for r in rows]
    if via == "df":
        import pandas as pd

        return ListCls(pd.DataFrame([i.data for i in items]))
    return ListCls(items)


def build_chart(game, ch, via="items"):
    if game == "osu":
        from reamber.osu import OsuBpm, OsuHit, OsuHold, OsuMap, OsuSv
        from reamber.osu.OsuSample import OsuSample
        from reamber.osu.lists import OsuBpmList, OsuSampleList, OsuSvList
        from reamber.osu.lists.notes import OsuHitList, OsuHoldList

        m = OsuMap()
        nx = ["hitsound_set", "sample_set", "addition_set", "custom_set", "volume", "hitsound_file"]
        tx = ["sample_set", "sample_set_index", "volume", "kiai"]
        m.hits = _mk_list(OsuHitList, OsuHit, [h + x for h, x in zip(ch["hits"], ch["hit_x"])], ["offset", "column"] + nx, via)
        m.holds = _mk_list(OsuHoldList, OsuHold, [h + x for h, x in zip(ch["holds"], ch["hold_x"])], ["offset", "column", "length"] + nx, via)
        m.bpms = _mk_list(OsuBpmList, OsuBpm, [b + x for b, x in zip(ch["bpms"], ch["bpm_x"])], ["offset", "bpm", "metronome"] + tx, via)
        m.svs = _mk_list(OsuSvList, OsuSv, [s + x for s, x in zip(ch["svs"], ch["sv_x"])], ["offset", "multiplier"] + tx, via)
        m.samples = _mk_list(OsuSampleList, OsuSample, ch["samples"], ["offset", "sample_file", "volume"], "items" if via == "from_dict" else via)
    elif game == "qua":
        from reamber.quaver import QuaBpm, QuaHit, QuaHold, QuaMap, QuaSv
        from reamber.quaver.lists import QuaBpmList, QuaSvList
        from reamber.quaver.lists.notes import QuaHitList, QuaHoldList

        m = QuaMap()
        m.hits = _mk_list(QuaHitList, QuaHit, [h + x for h, x in zip(ch["hits"], ch["hit_x"])], ["offset", "column", "keysounds"], via)
        m.holds = _mk_list(QuaHoldList, QuaHold, [h + x for h, x in zip(ch["holds"], ch["hold_x"])], ["offset", "column", "length", "keysounds"], via)
        m.bpms = _mk_list(QuaBpmList, QuaBpm, ch["bpms"], ["offset", "bpm", "metronome"], via)
        m.svs = _mk_list(QuaSvList, QuaSv, ch["svs"], ["offset", "multiplier"], via)
    elif game == "bms":
        # specs that went through JSON (replay files) carry bytes as "b:..." strings
        unb = lambda v: (v[2:].encode("ascii") if isinstance(v, str) and v.startswith("b:") else
                         ({unb(k): unb(x) for k, x in v.items()} if isinstance(v, dict) else ([unb(x) for x in v] if isinstance(v, list) else v)))
        ch = dict(ch, hit_x=unb(ch["hit_x"]), hold_x=unb(ch["hold_x"]), meta=unb(ch.get("meta", {})))
        from reamber.bms import BMSBpm, BMSHit, BMSHold, BMSMap
        from reamber.bms.lists import BMSBpmList
        from reamber.bms.lists.notes import BMSHitList, BMSHoldList

        m = BMSMap()
        m.hits = _mk_list(BMSHitList, BMSHit, [h + x for h, x in zip(ch["hits"], ch["hit_x"])], ["offset", "column", "sample"], via)
        m.holds = _mk_list(BMSHoldList, BMSHold, [h + x for h, x in zip(ch["holds"], ch["hold_x"])], ["offset", "column", "length", "sample"], via)
        m.bpms = _mk_list(BMSBpmList, BMSBpm, ch["bpms"], ["offset", "bpm", "metronome"], via)
    elif game == "o2j":
        from reamber.o2jam import O2JBpm, O2JHit, O2JHold, O2JMap
        from reamber.o2jam.lists import O2JBpmList
        from reamber.o2jam.lists.notes import O2JHitList, O2JHoldList

        m = O2JMap()
        m.hits = _mk_list(O2JHitList, O2JHit, [h + x for h, x in zip(ch["hits"], ch["hit_x"])], ["offset", "column", "volume", "pan"], via)
        m.holds = _mk_list(O2JHoldList, O2JHold, [h + x for h, x in zip(ch["holds"], ch["hold_x"])], ["offset", "column", "length", "volume", "pan"], via)
        m.bpms = _mk_list(O2JBpmList, O2JBpm, ch["bpms"], ["offset", "bpm", "metronome"], via)
    elif game == "sm":
        from reamber.sm import SMBpm, SMFake, SMHit, SMHold, SMKeySound, SMLift, SMMap, SMMine, SMRoll
        from reamber.sm.lists import SMBpmList
        from reamber.sm.lists.notes import (SMFakeList, SMHitList, SMHoldList, SMKeySoundList, SMLiftList,
                                            SMMineList, SMRollList)

        m = SMMap()
        m.hits = _mk_list(SMHitList, SMHit, ch["hits"], ["offset", "column"], via)
        m.holds = _mk_list(SMHoldList, SMHold, ch["holds"], ["offset", "column", "length"], via)
        m.bpms = _mk_list(SMBpmList, SMBpm, ch["bpms"], ["offset", "bpm", "metronome"], via)
        tab = dict(mines=(SMMineList, SMMine), lifts=(SMLiftList, SMLift), fakes=(SMFakeList, SMFake),
                   keysounds=(SMKeySoundList, SMKeySound))
        for kind, rows in ch.get("extra", {}).items():
            if kind == "stops":
                from reamber.sm.SMStop import SMStop
                from reamber.sm.lists import SMStopList
                m.stops = _mk_list(SMStopList, SMStop, rows, ["offset", "length"], via)
            elif kind == "rolls":
                m.rolls = _mk_list(SMRollList, SMRoll, rows, ["offset", "column", "length"], via)
            else:
                setattr(m, kind, _mk_list(tab[kind][0], tab[kind][1], rows, ["offset", "column"], via))
    else:
        raise ValueError(game)
    for k, v in ch.get("meta", {}).items():
        setattr(m, k, v)
    return m


def build(spec):
    global INT_VALUES
    INT_VALUES = bool(spec.get("int_values"))
    try:
        return _build(spec)
    finally:
        INT_VALUES = False


def _build(spec):
    game = spec["game"]
    via = spec.get("via", "items")
    maps = [build_chart(game, ch, via) for ch in spec["charts"]]
    if game == "sm":
        from reamber.sm import SMMapSet

        ms = SMMapSet()
        ms.maps = maps
    elif game == "o2j":
        from reamber.o2jam import O2JMapSet

        ms = O2JMapSet()
        ms.maps = maps
    else:
        return maps[0]
    for k, v in spec.get("meta", {}).items():
        setattr(ms, k, v)
    return ms


# ---------------------------------------------------------------------------
# histories: operations that change row labels / order / provenance but are
# (apart from rate / shift) content-preserving

HISTORY_OPS = ["reverse", "shuffle", "sorted", "filter_mask", "append_split", "sorted_pieces", "stack_shift", "rate", "deepcopy",
               "after", "stack_noop"]


def gen_history(rng, n=None, allowed=None):
    n = rng.choice([0, 1, 1, 2, 3]) if n is None else n
    ops = []
    for _ in range(n):
        op = rng.choice(allowed or HISTORY_OPS)
        if op in ("shuffle", "filter_mask", "append_split", "sorted_pieces", "concat_dup_labels"):
            ops.append([op, rng.randrange(10**6)])
        elif op == "stack_shift":
            ops.append([op, rng.choice([0.0, 100.0, -50.5, 1234.0])])
        elif op == "rate":
            ops.append([op, rng.choice([0.5, 0.75, 1.5, 2.0, 1.1])])
        elif op == "after":
            ops.append([op, rng.choice([-1e9, 0.0, 250.0])])
        else:
            ops.append([op])
    return ops


def _each_map(obj):
    return list(obj.maps) if hasattr(obj, "maps") else [obj]


def apply_history(obj, ops):
    """Applies ops in place / by replacement and returns the resulting object."""
    import numpy as np

    for op in ops:
        name = op[0]
        if name == "rate":
            obj = obj.rate(op[1])
            continue
        if name == "deepcopy":
            obj = obj.deepcopy()
            continue
        for m in _each_map(obj):
            if name in ("stack_shift", "stack_noop"):
                if sum(len(v) for v in m.objs.values()) == 0:
                    continue
                st = m.stack()
                st.offset += (op[1] if name == "stack_shift" else 0.0)
                continue
            for key in list(m.objs.keys()):
                tl = m.objs[key]
                cls = type(tl)
                if name == "reverse":
                    if len(tl) == 0:
                        continue  # pandas cannot concat a reversed empty frame (its own defect)
                    d = tl.df.iloc[::-1]
                    # plain integer labels: pandas mis-concatenates a descending RangeIndex with empty frames
                    d = d.set_axis(list(d.index), axis=0)
                    new = cls(d)
                elif name == "shuffle":
                    perm = np.random.RandomState(op[1] % (2**31)).permutation(len(tl))
                    new = cls(tl.df.iloc[perm])
                elif name == "sorted":
                    new = tl.sorted()
                elif name == "filter_mask":
                    r = random.Random(op[1] + len(tl))
                    mask = np.array([r.random() < 0.7 for _ in range(len(tl))], dtype=bool)
                    if key == "bpms" and len(tl):
                        mask[int(np.argmin(tl.df["offset"].to_numpy()))] = True  # keep the first tempo point
                    new = tl[mask]
                elif name == "after":
                    if key == "bpms":
                        continue
                    new = tl.after(op[1], include_end=True)
                elif name == "append_split":
                    k = (op[1] % (len(tl) + 1)) if len(tl) else 0
                    a, b = tl[:k], tl[k:]
                    new = b.append(a)  # same rows, rotated, labels 0..n-1
                elif name == "sorted_pieces":
                    # two pieces, each sorted on its own, the later piece first, appended without sort
                    k = (op[1] % (len(tl) + 1)) if len(tl) else 0
                    s_ = tl.sorted()
                    new = s_[k:].sorted().append(s_[:k].sorted())
                elif name == "concat_dup_labels":
                    # frames concatenated by hand (pd.concat keeps each piece's own labels: 0..k-1 occur twice), later piece first
                    import pandas as pd
                    k = (op[1] % (len(tl) + 1)) if len(tl) else 0
                    s_ = tl.sorted()
                    a, b = s_.df.iloc[:k].reset_index(drop=True), s_.df.iloc[k:].reset_index(drop=True)
                    new = type(tl)(pd.concat([b, a]))
                else:
                    raise ValueError(name)
                m.objs[key].df = new.df
    return obj


def content_preserving(ops):
    return all(o[0] in ("reverse", "shuffle", "sorted", "append_split", "sorted_pieces", "concat_dup_labels", "deepcopy", "stack_noop") for o in ops)
