"""Seeded generator of BMS texts (lists of lines) for the five shipped layouts."""
from __future__ import annotations

from fractions import Fraction as F
from math import lcm

from rv.ref.bms import LAYOUTS

B36 = "0123456789ABCDEFGHIJKLMNOPQRSTUVWXYZ"
SUBDIV = [1, 2, 3, 4, 5, 6, 7, 8, 9, 11, 12, 13, 16, 17, 24, 32, 48, 64, 96, 192]
TEMPO_SUBDIV = [1, 2, 3, 4, 6, 8, 12, 16, 24, 32, 48, 96, 192, 384]


def b36(n):
    return B36[n // 36] + B36[n % 36]


def pack(events, extra_factor=1):
    """events: [(pos Fraction in [0,1), id str)] of one measure+channel -> data string."""
    n = 1
    for p, _ in events:
        n = lcm(n, p.denominator)
    n *= extra_factor
    seq = ["00"] * n
    for p, i in events:
        seq[int(p * n)] = i
    return "".join(seq)


def use_ln_cls(cls):
    return cls != "no_lnobj"


def gen_lines(rng, cls="plain", max_measures=6):
    layout = rng.choice(list(LAYOUTS))
    lanes = LAYOUTS[layout]
    n_meas = rng.randint(1, max_measures)
    wav_ids = [b36(rng.randint(1, 1295)) for _ in range(rng.randint(1, 8))]
    lnobj = rng.choice(["ZZ", "ZZ", "AA", "0Z"])
    wav_ids = [w for w in wav_ids if w != lnobj] or ["01"]
    if rng.random() < 0.3:
        # ids are written the same way in the header and in the data; letters may be lower case
        wav_ids = [w.lower() if rng.random() < 0.7 else w for w in wav_ids]
        wav_ids = list(dict.fromkeys(w for w in wav_ids if w.upper() != lnobj.upper())) or ["01"]
    if not use_ln_cls(cls) and rng.random() < 0.6:
        wav_ids.append("ZZ")  # without #LNOBJ the last id is an ordinary keysound
    if rng.random() < 0.15 and lnobj.upper() != "0K":
        wav_ids = list(dict.fromkeys(wav_ids + ["0k", "0K"]))  # likewise for sample ids
    undefined_ids = [i for i in ("02", "XY", "7K") if i not in wav_ids and i != lnobj]
    use_ln = cls != "no_lnobj"
    header = [("PLAYER", "1"), ("GENRE", rng.choice(["Trance", "J-POP", "a b c"])),
              ("TITLE", rng.choice(["Cold Breath", "take [ANOTHER]", "searoad", "X", "夜の歌", "Fly \u301caway\u301c", "A \u2016 B \u2212 C", "5\u00a2 \u00a3 \u00ac"])),  # incl. the characters Shift-JIS and cp932 map differently
              ("ARTIST", rng.choice(["me", "DJ Foo feat. Bar", "obj: someone"])),
              ("BPM", rng.choice(["120", "150", "180.5", "93", "200", "139.99"])),
              ("PLAYLEVEL", str(rng.randint(1, 12))), ("RANK", "2"), ("TOTAL", "300"), ("STAGEFILE", "bg.bmp")]
    if use_ln:
        header.append(("LNOBJ", lnobj))
    for w in wav_ids:
        header.append((f"WAV{w}", rng.choice(["kick.wav", "snare 01.wav", "a.ogg"])))
    if use_ln and rng.random() < 0.3:
        header.append((f"WAV{lnobj}", "release.wav"))  # the end marker may have a sample of its own; it still ends the long note
    exb_ids = [b36(rng.randint(1, 200)) for _ in range(rng.randint(0, 3))]
    exb_ids = list(dict.fromkeys(exb_ids))
    if rng.random() < 0.2:
        # two definitions whose ids differ only in letter case are two definitions (ids are matched as written)
        exb_ids = list(dict.fromkeys(exb_ids + ["1a", "1A"]))
    zero_defs = rng.random() < 0.2   # #WAV00 (the miss sound of several players) and #BPM00 are definitions like the others
    if zero_defs:
        header.append(("WAV00", "miss.wav"))
        header.append(("BPM00", "130"))
    for e in exb_ids:
        header.append((f"BPM{e}", rng.choice(["222.22", "90.5", "300", "173.333", "60"])))
    if rng.random() < 0.4:
        rng.shuffle(header)
    # notes per lane
    data = {}  # (measure, channel) -> list of event lists (each list becomes one line)
    for ch, col in lanes.items():
        if rng.random() < 0.25:
            continue
        events = []  # (measure, pos, id)
        used = set()
        m = 0
        pending_tail = False
        while m < n_meas:
            k = rng.choice([0, 1, 1, 2, 3, 5])
            n = rng.choice(SUBDIV)
            pos = sorted({F(rng.randint(0, n - 1), n) for _ in range(k)})
            for p in pos:
                if (m, p) in used:
                    continue
                used.add((m, p))
                if pending_tail:
                    events.append((m, p, lnobj))
                    pending_tail = False
                elif use_ln and rng.random() < 0.25:
                    events.append((m, p, rng.choice(wav_ids + undefined_ids[:1])))   # a head may carry an id without a #WAV: no sample
                    pending_tail = True
                else:
                    events.append((m, p, rng.choice(wav_ids + undefined_ids[:1])))
            m += 1
        if pending_tail:
            # close the last head in an extra measure
            events.append((n_meas, F(0), lnobj))
        for m_, p, i in events:
            data.setdefault((m_, ch.decode()), []).append((p, i))
    # tempo changes
    tempo_used = set()
    n_t = 0 if cls == "single_tempo" else rng.choice([0, 1, 2, 3, 5])
    for _ in range(n_t):
        m = rng.randint(0, n_meas)
        n = rng.choice(TEMPO_SUBDIV if cls != "tempo_fine_subdivision" else [193, 500, 1000, 250])
        p = F(rng.randint(0, n - 1), n)
        if (m, p) in tempo_used:
            continue
        tempo_used.add((m, p))
        if exb_ids and rng.random() < 0.5:
            data.setdefault((m, "08"), []).append((p, rng.choice(exb_ids)))
        else:
            v = rng.randint(30, 255)
            data.setdefault((m, "03"), []).append((p, "%02X" % v))
    # one line per (measure, channel), or several
    lines = []
    for (m, ch), evs in data.items():
        groups = [evs]
        if cls == "repeated_lines" and len(evs) > 1 and rng.random() < 0.7:
            rng.shuffle(evs)
            cut = rng.randint(1, len(evs) - 1)
            groups = [evs[:cut], evs[cut:]]
        for g in groups:
            lines.append((m, ch, f"#{m:03d}{ch}:" + pack(g, rng.choice([1, 1, 1, 2, 3]))))
    order = rng.choice(["file", "sorted", "reversed", "random"]) if cls in ("line_order", "repeated_lines") else rng.choice(["file", "sorted"])
    if order == "sorted":
        lines.sort(key=lambda x: (x[0], x[1]))
    elif order == "reversed":
        lines.sort(key=lambda x: (x[0], x[1]), reverse=True)
    elif order == "random":
        rng.shuffle(lines)
    out = []
    if rng.random() < 0.3:
        out += ["", "*---------------------- HEADER FIELD"]
    if rng.random() < 0.15:
        # command names are case-insensitive (the 2-character ids keep their case: they are matched against the data lines)
        header = [((k[:3].lower() + k[3:]) if k[:3] in ("WAV", "BPM") and len(k) == 5 else k.lower(), v) for k, v in header]
    out += [f"#{k} {v}" for k, v in header]
    if rng.random() < 0.5:
        out += ["", "*---------------------- MAIN DATA FIELD", ""]
    out += [ln for _, _, ln in lines]
    if rng.random() < 0.2:
        # blanks or a tab around a line are not part of it
        out = [rng.choice(["  ", "\t", " "]) + ln + rng.choice(["", " ", "\t"]) if ln and rng.random() < 0.5 else ln for ln in out]
    return out, layout, dict(order=order)
