"""Generator of .osu (v14, mania) texts, class-based."""
from __future__ import annotations

TEXTS = ["Line\u2028Sep", "NEL\x85here", "Form\x0cfeed", "Unit\x1fsep", "Caravan", "夜に駆ける", "Ünïcode", "a b c", "x_y-z", "", "2nd", "A, B & C", "élan vital", "Title (TV Size)", "http://example.com/ost", "7K // Another", "Insane [7K]", "[Extended]", "Song [TV Size]"]
COLON_TEXTS = ["Re:Title", "a:b:c", "Re: Zero", "12:30"]
FILES = ["hit.wav", "clap.ogg", "snare 2.wav", "kick.wav", "a-b_c.wav"]


def fnum(x):
    return repr(float(x)) if float(x) != int(x) else str(int(x))


def gen_text(rng, cls):
    """Returns list of lines.  cls: plain | colon_meta | events_plain | no_event_comments | edge_x | big_times | many_sv"""
    keys = rng.choice([1, 2, 3, 4, 4, 5, 6, 7, 7, 8, 9, 10, 12, 14, 16, 18])
    txt = (lambda: rng.choice(TEXTS + (COLON_TEXTS if cls == "colon_meta" else [])))
    L = ["osu file format v14", "", "[General]",
         f"AudioFilename: {rng.choice(['audio.mp3', 'song file.ogg', 'a:b.mp3' if cls == 'colon_meta' else 'x.mp3'])}",
         f"AudioLeadIn: {rng.choice([0, 500, 2000])}", f"PreviewTime: {rng.choice([-1, 0, 12345, 99999])}",
         f"Countdown: {rng.choice([0, 1])}", f"SampleSet: {rng.choice(['None', 'Normal', 'Soft', 'Drum'])}",
         f"StackLeniency: {rng.choice(['0.7', '0.5', '1'])}", "Mode: 3", f"LetterboxInBreaks: {rng.choice([0, 1])}",
         f"SpecialStyle: {rng.choice([0, 1])}", f"WidescreenStoryboard: {rng.choice([0, 1])}", "",
         "[Editor]", f"DistanceSpacing: {rng.choice(['1', '1.2', '4'])}", f"BeatDivisor: {rng.choice([4, 8, 16])}",
         f"GridSize: {rng.choice([4, 8, 32])}", f"TimelineZoom: {rng.choice(['1', '0.3', '2.5'])}", "",
         "[Metadata]", f"Title:{txt()}", f"TitleUnicode:{txt()}", f"Artist:{txt()}", f"ArtistUnicode:{txt()}",
         f"Creator:{txt()}", f"Version:{txt()}", f"Source:{txt()}", f"Tags:{rng.choice(['', 'a b c', 'tag', 'x  y', '東方\u3000Project remix', 'no\u00a0break tag', 'tab\there', 'a//b c', 'a b [4K]'])}",
         f"BeatmapID:{rng.choice([0, 123456])}", f"BeatmapSetID:{rng.choice([-1, 4321])}", "",
         "[Difficulty]", f"HPDrainRate:{rng.choice(['5', '7.5', '8'])}", f"CircleSize:{keys}",
         f"OverallDifficulty:{rng.choice(['5', '8.2', '10'])}", f"ApproachRate:{rng.choice(['5', '9'])}",
         f"SliderMultiplier:{rng.choice(['1.4', '1', '3.6'])}", f"SliderTickRate:{rng.choice(['1', '2'])}", "", "[Events]"]
    comments = cls != "no_event_comments"
    span = 10**7 if cls == "big_times" else 20000
    t0 = rng.choice([0, -1500, 250, 1000]) if cls != "big_times" else rng.choice([-10**6, 0])
    if comments:
        L.append("//Background and Video events")
    if cls == "video_first":
        L.append('Video,0,"vid.mp4"')
    if rng.random() < 0.8:
        L.append(f'0,0,"{rng.choice(["bg.png", "b g.jpg", "夜.png", "stage, final (1920x1080).jpg"])}",0,0')
    if comments:
        L += ["//Break Periods", "//Storyboard Layer 0 (Background)", "//Storyboard Layer 1 (Fail)", "//Storyboard Layer 2 (Pass)",
              "//Storyboard Layer 3 (Foreground)", "//Storyboard Layer 4 (Overlay)", "//Storyboard Sound Samples"]
    for _ in range(rng.choice([0, 0, 1, 3, 6])):
        f = rng.choice(FILES)
        vol = rng.choice([10, 70, 100])
        if cls == "sample_no_volume" and rng.random() < 0.5:
            L.append(f'Sample,{t0 + rng.randint(0, span)},0,"{f}"')
        else:
            L.append(f'Sample,{t0 + rng.randint(0, span)},0,"{f}",{vol}')
    L += ["", "[TimingPoints]"]
    nb = rng.choice([1, 1, 2, 4])
    tps = []
    t = float(t0)
    for i in range(nb):
        bl = rng.choice([500.0, 333.3333333333333, 400.0, 344.82758620689657, 250.0, 1000.0, rng.uniform(100, 2000)])
        tps.append(f"{fnum(t)},{repr(bl)},{rng.choice([4, 4, 3, 7, 1])},{rng.randrange(4)},{rng.choice([0, 1, 2, 2, 256, 1000])},{rng.choice([5, 50, 100])},1,{rng.choice([0, 1, 0, 1, 8, 9])}")
        t += rng.choice([span / 4, 1234.5, 4000.0, rng.uniform(1, span / 2)])
    nsv = rng.choice([0, 0, 2, 5]) if cls != "many_sv" else 25
    for i in range(nsv):
        ts = rng.choice([float(t0), float(t0) + rng.uniform(0, span)]) if rng.random() < 0.8 else float(tps[0].split(",")[0])
        if rng.random() < 0.1:
            ts = float(t0) - rng.choice([0.5, 250.0, 3000.0])  # an SV ahead of the first timing point is an SV all the same
        code = rng.choice([-100.0, -50.0, -200.0, -133.33333333333334, -10.0, -1000.0, -rng.uniform(10, 1000)])
        tps.append(f"{fnum(ts)},{repr(code)},4,{rng.randrange(4)},{rng.choice([0, 1, 2, 2, 256, 1000])},{rng.choice([5, 50, 100])},0,{rng.choice([0, 1, 0, 1, 8, 9])}")
    if rng.random() < 0.5:
        rng.shuffle(tps)
    L += tps
    L += ["", "", "[HitObjects]"]
    n = rng.choice([0, 1, 5, 20, 60])
    w = 512 / keys
    objs = []
    for _ in range(n):
        c = rng.randrange(keys)
        lo, hi = int(-(-c * 512 // keys)), int(-(-(c + 1) * 512 // keys)) - 1   # ceil bounds of the column's x range
        lo = max(lo, 0)
        hi = min(max(hi, lo), 511)
        mode = rng.choice(["centre", "left", "right", "rand"]) if cls != "edge_x" else rng.choice(["left", "right"])
        x = {"centre": int((512 * c + 256) // keys), "left": lo, "right": hi, "rand": rng.randint(lo, hi)}[mode]
        tt = t0 + rng.randint(0, span)
        hs = rng.randrange(16)
        # the custom sample index is an unbounded integer (sample banks beyond 255 exist)
        samp = f"{rng.randrange(4)}:{rng.randrange(4)}:{rng.choice([0, 1, 2, 0, 1, 2, 99, 255, 256, 300, 70000])}:{rng.choice([0, 30, 70, 100])}:{rng.choice(['', '', '', rng.choice(FILES)])}"
        if rng.random() < 0.3:
            end = tt + rng.choice([0, 1, 50, 500, 12345])
            objs.append(f"{x},192,{tt},{rng.choice([128, 128, 132, 148, 128 | 64, 128 | 4 | 32])},{hs},{end}:{samp}")  # new-combo / colour-skip bits do not change the kind
        else:
            objs.append(f"{x},192,{tt},{rng.choice([1, 1, 5, 21, 1 | 32, 1 | 64, 1 | 4 | 16 | 32 | 64])},{hs},{samp}")
    if rng.random() < 0.3:
        rng.shuffle(objs)
    L += objs
    if rng.random() < 0.5:
        L.append("")
    return L
