"""Generator of OJN byte strings (spec -> bytes through rv/ref/ojn.build_*)."""
from __future__ import annotations

from fractions import Fraction as F

from rv.ref import ojn as rojn

SLOTS = [1, 2, 3, 4, 6, 8, 12, 16, 24, 32, 48, 64, 96, 192, 5, 7, 9, 10, 100, 384]


def gen_level(rng, cls, n_meas):
    """packages: [(measure, channel, slots)] in measure order."""
    pk = []
    if cls != "no_tempo":
        nt = {"one_tempo": 1, "many_tempo": rng.randint(5, 25)}.get(cls, rng.choice([0, 1, 2, 3]))
        used = set()
        for _ in range(nt):
            m = rng.randint(0, n_meas + (2 if cls == "tempo_after_last" else 0))
            if cls == "tempo_after_last" and rng.random() < 0.5:
                m = n_meas + rng.randint(0, 2)
            if m in used:
                continue
            used.add(m)
            n = rng.choice(SLOTS[:8])
            slots = [0.0] * n
            for i in rng.sample(range(n), rng.choice([1, 1, 2]) if n > 1 else 1):
                slots[i] = rng.choice([60.0, 90.0, 120.0, 150.0, 173.25, 200.0, 222.5, 300.0])
            if cls == "tempo_at_measure_0" and not pk:
                m = 0
                slots[0] = slots[0] or 140.0
            pk.append((m, 1, slots))
    for col in range(7):
        if rng.random() < 0.3:
            continue
        open_ = False
        for m in range(n_meas):
            if rng.random() < 0.35:
                continue
            n = rng.choice(SLOTS)
            slots = [None] * n
            for i in sorted(rng.sample(range(n), min(n, rng.choice([1, 1, 2, 3])))):
                vol, pan = rng.randrange(16), rng.randrange(16)
                if open_:
                    slots[i] = (rng.choice([rng.randint(1, 500), 40000, 65535]), vol, pan, 3)
                    open_ = False
                elif rng.random() < 0.3:
                    slots[i] = (rng.choice([rng.randint(1, 500), 40000, 65535]), vol, pan, 2)
                    open_ = True
                else:
                    slots[i] = (rng.choice([rng.randint(1, 500), 32768, 65535]), vol, pan, 0)
            pk.append((m, col + 2, slots))
        if open_:
            pk.append((n_meas, col + 2, [(7, 0, 0, 3)]))
    pk.sort(key=lambda x: x[0])
    return pk


def gen_spec(rng, cls):
    n_meas = rng.randint(1, 6)
    levels = [gen_level(rng, cls if i == 0 or rng.random() < 0.7 else "plain", n_meas) for i in range(3)]
    if cls == "empty_level":
        levels[rng.randrange(3)] = []
    hdr = dict(song_id=rng.choice([rng.randint(1, 99999), -1, 2**31 - 1]), signature="ojn", encode_version=2.9, genre=rng.choice([rng.randrange(11), -1]),
               bpm=rng.choice([120.0, 150.0, 93.5, 178.0, 200.0]), level=[rng.choice([rng.randint(1, 40), -1, 32767]) for _ in range(3)] + [0],
               event_count=[sum(len(s) for _, _, s in l) for l in levels], note_count=[rng.randint(0, 999) for _ in range(3)],
               measure_count=[n_meas] * 3, package_count=[len(l) for l in levels], old_encode_version=rng.choice([29, -1, 0]), old_song_id=rng.choice([rng.randint(0, 999), -2, -32768, 32767]),
               old_genre="", bmp_size=0, old_file_version=0, title=rng.choice(["Fly Magpie", "a b c", "T", "Song (Remix) 2"]),
               artist=rng.choice(["Artist", "DJ X", ""]), creator=rng.choice(["noter", "me"]), ojm_file=rng.choice(["o2ma178.ojm", "x.ojm"]),
               cover_size=0, duration=[rng.randint(30, 300) for _ in range(3)], note_offset=[300, 0, 0], cover_offset=0)
    return dict(header=hdr, levels=[[[m, c, [list(x) if isinstance(x, tuple) else x for x in s]] for m, c, s in l] for l in levels])


def build(spec) -> bytes:
    b = rojn.build_header(spec["header"])
    for l in spec["levels"]:
        for m, c, s in l:
            b += rojn.build_package(m, c, [tuple(x) if isinstance(x, list) else x for x in s])
    return b
