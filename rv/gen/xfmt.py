"""Abstract grid charts rendered as source files of all five games (C09, C15).

An abstract chart: keys, first-tempo time t0 (ms), tempo changes on measure
lines [(measure, bpm)], notes on quarter beats [(col, q0, q1|None)] (q in
quarter-beat units, holds q1 > q0), every bpm with an integral quarter-beat
length in ms so that osu/Quaver integer times are exact."""
from __future__ import annotations

import struct
from fractions import Fraction as F

BPMS = [120.0, 150.0, 100.0, 200.0, 60.0, 75.0, 125.0]


def gen_abstract(rng, keys, n_meas=None, t0=None, n_tempo=None, use_all_cols=True):
    n_meas = n_meas or rng.randint(1, 5)
    n_tempo = n_tempo or rng.choice([1, 1, 2, 3])
    meas = sorted({0} | {rng.randint(1, n_meas) for _ in range(n_tempo - 1)})
    vals = rng.sample(BPMS, len(meas))
    tempo = [[m, v] for m, v in zip(meas, vals)]
    notes = []
    for c in range(keys):
        q = rng.randint(0, 4)
        first = True
        while q < 16 * n_meas:
            if first and use_all_cols or rng.random() < 0.5:
                if rng.random() < 0.3 and q + 2 < 16 * n_meas:
                    ln = rng.randint(2, 8)
                    notes.append([c, q, min(q + ln, 16 * n_meas)])
                    q += ln
                else:
                    notes.append([c, q, None])
                first = False
            q += rng.randint(2, 6)  # >= 2 grid steps apart in a column
    return dict(keys=keys, t0=float(t0 if t0 is not None else rng.choice([0.0, 0.0, 500.0, 1250.0, -400.0])), tempo=tempo, notes=notes, n_meas=n_meas)


def ms_of_q(ab, q):
    """exact ms (Fraction) of quarter-beat index q."""
    t = F(ab["t0"])
    tempo = ab["tempo"]
    for i, (m, v) in enumerate(tempo):
        q_start = 16 * m
        q_end = 16 * tempo[i + 1][0] if i + 1 < len(tempo) else None
        if q_end is None or q < q_end:
            return t + F(q - q_start) * F(60000) / F(v) / 4
        t += F(q_end - q_start) * F(60000) / F(v) / 4
    raise AssertionError


def abstract_den(ab):
    objs = sorted((c, float(ms_of_q(ab, q0)), None if q1 is None else float(ms_of_q(ab, q1))) for c, q0, q1 in ab["notes"])
    tempo = [(float(ms_of_q(ab, 16 * m)), float(v)) for m, v in ab["tempo"]]
    return dict(objects=objs, tempo=tempo)


# ---------------------------------------------------------------------------

def render_osu(ab, meta=None):
    meta = meta or {}
    keys = ab["keys"]
    L = ["osu file format v14", "", "[General]", "AudioFilename: audio.mp3", "AudioLeadIn: 0", "PreviewTime: -1", "Countdown: 0", "SampleSet: None",
         "StackLeniency: 0.7", "Mode: 3", "LetterboxInBreaks: 0", "SpecialStyle: 0", "WidescreenStoryboard: 0", "", "[Editor]", "DistanceSpacing: 1",
         "BeatDivisor: 4", "GridSize: 8", "TimelineZoom: 1", "", "[Metadata]", f"Title:{meta.get('title', 'Title')}", f"TitleUnicode:{meta.get('title', 'Title')}",
         f"Artist:{meta.get('artist', 'Artist')}", f"ArtistUnicode:{meta.get('artist', 'Artist')}", f"Creator:{meta.get('creator', 'me')}",
         f"Version:{meta.get('version', 'Hard')}", "Source:", "Tags:", "BeatmapID:0", "BeatmapSetID:-1", "", "[Difficulty]", "HPDrainRate:8", f"CircleSize:{keys}",
         "OverallDifficulty:8", "ApproachRate:5", "SliderMultiplier:1.4", "SliderTickRate:1", "", "[Events]", "//Background and Video events", '0,0,"bg.png",0,0',
         "//Storyboard Sound Samples", "", "[TimingPoints]"]
    tps = []
    for m, v in ab["tempo"]:
        t = ms_of_q(ab, 16 * m)
        tps.append(f"{float(t)},{repr(60000.0 / v)},{ab.get('osu_meter', 4)},0,0,50,1,0")
    L += tps[::-1] if ab.get("tempo_rows_reversed") else tps
    L += ["", "", "[HitObjects]"]
    for c, q0, q1 in ab["notes"]:
        x = int((512 * c + 256) // keys)
        t0 = int(ms_of_q(ab, q0))
        if q1 is None:
            L.append(f"{x},192,{t0},{[1, 1, 5, 21, 65][(c + q0) % 5]},0,0:0:0:0:")   # new-combo / colour-skip bits do not change the kind
        else:
            L.append(f"{x},192,{t0},{[128, 128, 132, 148, 164][(c + q0) % 5]},0,{int(ms_of_q(ab, q1))}:0:0:0:0:")
    return L


def render_qua(ab, meta=None):
    import yaml

    meta = meta or {}
    doc = {"AudioFile": "audio.mp3", "BackgroundFile": "bg.png", "MapId": -1, "MapSetId": -1, "Mode": {4: "Keys4", 7: "Keys7", 8: "Keys8"}.get(ab["keys"], "Keys4"),
           "Title": meta.get("title", "Title"), "Artist": meta.get("artist", "Artist"), "Source": "", "Tags": "", "Creator": meta.get("creator", "me"),
           "DifficultyName": meta.get("version", "Hard"), "Description": "", "EditorLayers": [], "CustomAudioSamples": [], "SoundEffects": [],
           "TimingPoints": [{"StartTime": float(ms_of_q(ab, 16 * m)), "Bpm": v} for m, v in ab["tempo"]], "SliderVelocities": [],
           "HitObjects": [dict({"StartTime": int(ms_of_q(ab, q0)), "Lane": c + 1, "KeySounds": []}, **({} if q1 is None else {"EndTime": int(ms_of_q(ab, q1))})) for c, q0, q1 in ab["notes"]]}
    if ab.get("tempo_rows_reversed"):
        doc["TimingPoints"] = doc["TimingPoints"][::-1]
    for d in doc["TimingPoints"] + doc["HitObjects"]:
        if d.get("StartTime") == 0:
            d.pop("StartTime")
    return yaml.safe_dump(doc, sort_keys=False)


SM_TYPE = {3: "dance-threepanel", 4: "dance-single", 6: "dance-solo", 7: "kb7-single", 8: "dance-double"}


def sm_notes_block(ab, meta, difficulty="Hard", val=9):
    keys = ab["keys"]
    n_meas = max(ab["n_meas"], max([(q1 if q1 is not None else q0) for _, q0, q1 in ab["notes"]] + [0]) // 16 + 1)
    rows = [["0"] * keys for _ in range(16 * n_meas)]
    for c, q0, q1 in ab["notes"]:
        if q1 is None:
            rows[q0][c] = "1"
        else:
            rows[q0][c] = "2"
            rows[q1][c] = "3"
    measures = []
    for m in range(n_meas):
        measures.append("\n".join("".join(r) for r in rows[16 * m:16 * m + 16]))
    return f"#NOTES:\n     {SM_TYPE[keys]}:\n     {meta.get('version', 'desc')}:\n     {difficulty}:\n     {val}:\n     0,0,0,0,0:\n" + "\n,\n".join(measures) + "\n;\n"


def render_sm(ab, meta=None):
    """ab["extra"]: further charts of the same file (own key count and notes; tempo and offset belong to the file)."""
    meta = meta or {}
    bpms = ",".join(f"{4 * m}.000={v}" for m, v in ab["tempo"])
    return (f"#TITLE:{meta.get('title', 'Title')};\n#SUBTITLE:;\n#ARTIST:{meta.get('artist', 'Artist')};\n#TITLETRANSLIT:;\n#SUBTITLETRANSLIT:;\n#ARTISTTRANSLIT:;\n"
            f"#GENRE:;\n#CREDIT:{meta.get('creator', 'me')};\n#BANNER:;\n#BACKGROUND:bg.png;\n#LYRICSPATH:;\n#CDTITLE:;\n#MUSIC:audio.mp3;\n"
            f"#OFFSET:{-ab['t0'] / 1000:.6f};\n#SAMPLESTART:0.000;\n#SAMPLELENGTH:10.000;\n#SELECTABLE:YES;\n#BPMS:{bpms};\n#STOPS:;\n#BGCHANGES:;\n#FGCHANGES:;\n"
            + sm_notes_block(ab, meta) + "".join(sm_notes_block(dict(e, n_meas=ab["n_meas"]), meta, d, v) for e, (d, v) in zip(ab.get("extra", []), [("Easy", 3), ("Medium", 6), ("Challenge", 12)])))


B36 = "0123456789ABCDEFGHIJKLMNOPQRSTUVWXYZ"


def render_bms(ab, layout_lanes, meta=None):
    """layout_lanes: channel bytes -> column.  BMS has no offset: t0 must be 0."""
    meta = meta or {}
    col_ch = {v: k.decode() for k, v in layout_lanes.items()}
    L = ["#PLAYER 1", f"#TITLE {meta.get('title', 'Title')}", f"#ARTIST {meta.get('artist', 'Artist')}", f"#BPM {ab['tempo'][0][1]:g}",
         f"#PLAYLEVEL {meta.get('version', '7')}", "#LNOBJ ZZ", "#WAV01 hit.wav"]
    ex = {}
    for i, (m, v) in enumerate(ab["tempo"][1:], 1):
        ex[m] = B36[i // 36] + B36[i % 36]
        L.append(f"#BPM{ex[m]} {v:g}")
    for m, i in ex.items():
        L.append(f"#{m:03}08:{i}")
    per = {}
    for c, q0, q1 in ab["notes"]:
        per.setdefault((q0 // 16, c), {})[q0 % 16] = "01"
        if q1 is not None:
            per.setdefault((q1 // 16, c), {})[q1 % 16] = "ZZ"
    for (m, c), slots in sorted(per.items()):
        L.append(f"#{m:03}{col_ch[c]}:" + "".join(slots.get(i, "00") for i in range(16)))
    return L


def render_ojn(ab, meta=None):
    from rv.ref import ojn as rojn

    meta = meta or {}
    pk = []
    if ab.get("ojn_event_at_zero"):
        # a tempo event on measure 0, position 0: it replaces the header tempo from 0 ms on (two tempo points at one time)
        pk.append((0, 1, [float(ab["tempo"][0][1])]))
    for m, v in ab["tempo"][1:]:
        pk.append((m, 1, [float(v)]))
    per = {}
    for c, q0, q1 in ab["notes"]:
        if q1 is None:
            per.setdefault((q0 // 16, c), {})[q0 % 16] = (1, 0, 0, 0)
        else:
            per.setdefault((q0 // 16, c), {})[q0 % 16] = (1, 0, 0, 2)
            per.setdefault((q1 // 16, c), {})[q1 % 16] = (1, 0, 0, 3)
    for (m, c), slots in per.items():
        pk.append((m, c + 2, [slots.get(i) for i in range(16)]))
    pk.sort(key=lambda x: (x[0], x[1]))
    hdr = dict(song_id=1, signature="ojn", encode_version=2.9, genre=0, bpm=float(ab.get("ojn_event_at_zero") or ab["tempo"][0][1]), level=[5, 10, 15, 0], event_count=[0, 0, 0],
               note_count=[0, 0, 0], measure_count=[ab["n_meas"]] * 3, package_count=[len(pk), 0, 0], old_encode_version=29, old_song_id=1, old_genre="",
               bmp_size=0, old_file_version=0, title=meta.get("title", "Title"), artist=meta.get("artist", "Artist"), creator=meta.get("creator", "me"),
               ojm_file="x.ojm", cover_size=0, duration=[60, 0, 0], note_offset=[300, 0, 0], cover_offset=0)
    b = rojn.build_header(hdr)
    for m, c, s in pk:
        b += rojn.build_package(m, c, s)
    return b
