"""Child interpreter of fileio.check_c_locale: started with LC_ALL=C, UTF-8 mode off and
locale coercion off, so the process default text encoding is ASCII (as on a POSIX "C"
locale; Windows code pages behave alike).  Builds a chart with non-ASCII metadata,
writes it with write_file, and reports as JSON what is on disk next to what write()
returns and what read_file gives back.  usage: locale_child.py <repo> <game>"""
import json
import locale
import os
import sys
import tempfile

TITLE = "夜に駆ける Ünïcode"
ARTIST = "ヨアソビ"


def main():
    repo, game = sys.argv[1], sys.argv[2]
    sys.path.insert(0, repo)
    import warnings

    warnings.filterwarnings("ignore")
    import reamber

    out = dict(game=game, preferred_encoding=locale.getpreferredencoding(False), utf8_mode=sys.flags.utf8_mode,
               reamber=os.path.dirname(reamber.__file__))
    if game == "osu":
        from reamber.osu.OsuMap import OsuMap
        from reamber.osu.OsuBpm import OsuBpm
        from reamber.osu.OsuHit import OsuHit
        from reamber.osu.lists.OsuBpmList import OsuBpmList
        from reamber.osu.lists.notes.OsuHitList import OsuHitList

        m = OsuMap()
        m.hits = OsuHitList([OsuHit(offset=1000.0, column=1)])
        m.bpms = OsuBpmList([OsuBpm(offset=0.0, bpm=120.0)])
        m.title_unicode, m.artist_unicode, m.title, m.artist = TITLE, ARTIST, "Yoru", "Y"
        cls, field, want_field = OsuMap, "title_unicode", TITLE
        text = "\n".join(m.write())
    elif game == "qua":
        from reamber.quaver.QuaMap import QuaMap
        from reamber.quaver.QuaBpm import QuaBpm
        from reamber.quaver.QuaHit import QuaHit
        from reamber.quaver.lists.QuaBpmList import QuaBpmList
        from reamber.quaver.lists.notes.QuaHitList import QuaHitList

        m = QuaMap()
        m.hits = QuaHitList([QuaHit(offset=1000.0, column=1, keysounds=[])])
        m.bpms = QuaBpmList([QuaBpm(offset=0.0, bpm=120.0)])
        m.title, m.artist = TITLE, ARTIST
        cls, field, want_field = QuaMap, "title", TITLE
        text = m.write()
    else:
        from reamber.sm.SMBpm import SMBpm
        from reamber.sm.SMHit import SMHit
        from reamber.sm.SMMap import SMMap
        from reamber.sm.SMMapSet import SMMapSet
        from reamber.sm.lists.SMBpmList import SMBpmList
        from reamber.sm.lists.notes.SMHitList import SMHitList

        c = SMMap()
        c.hits = SMHitList([SMHit(offset=1000.0, column=1)])
        c.bpms = SMBpmList([SMBpm(offset=0.0, bpm=120.0)])
        m = SMMapSet()
        m.maps = [c]
        m.offset = 0.0
        m.title, m.artist = TITLE, ARTIST
        cls, field, want_field = SMMapSet, "title", TITLE
        text = m.write()
    d = tempfile.mkdtemp(prefix="rv_loc_")
    path = os.path.join(d, "chart.txt")
    out["want_hex"] = text.encode("utf8").hex()
    try:
        m.write_file(path)
        with open(path, "rb") as f:
            out["disk_hex"] = f.read().hex()
    except Exception as e:
        out["write_file_raises"] = f"{type(e).__name__}: {e}"
    if "disk_hex" not in out:
        with open(path, "wb") as f:
            f.write(text.encode("utf8"))
    try:
        back = cls.read_file(path)
        out["read_back"] = getattr(back, field)
        out["want_field"] = want_field
    except Exception as e:
        out["read_file_raises"] = f"{type(e).__name__}: {e}"
    try:
        os.remove(path)
        os.rmdir(d)
    except OSError:
        pass
    sys.stdout.write("RESULT " + json.dumps(out, ensure_ascii=True) + "\n")


if __name__ == "__main__":
    main()
