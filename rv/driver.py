"""Parent process of a check: spawns shards, aggregates, classifies violations
against known_findings.json, writes evidence and replay files, prints the
verdict lines and returns the exit code (0 held / 1 violation / 2 inconclusive).
"""
from __future__ import annotations

import importlib
import json
import os
import shutil
import subprocess
import sys
import tempfile
import time
from collections import Counter
from concurrent.futures import ThreadPoolExecutor

from rv import core

PY = os.environ.get("VERIF_PYTHON", "/venv/bin/python")


def ensure_deps():
    """icontract (runtime contracts) beside the repo's interpreter, offline."""
    deps = os.path.join(core.VERIF_DIR, ".deps")
    if os.path.isdir(os.path.join(deps, "icontract")):
        return
    os.makedirs(deps, exist_ok=True)
    subprocess.run(
        [PY, "-m", "pip", "install", "--quiet", "--no-index", "--find-links",
         "/opt/veriftools/wheels", "--target", deps, "icontract"],
        check=False, stdout=subprocess.DEVNULL, stderr=subprocess.DEVNULL,
    )


def run_shard(prop, tier, seed, shard, nshards, cases, deadline, timeout, outdir, extra=()):
    out = os.path.join(outdir, f"{prop}.{shard}.json")
    cmd = [PY, "-m", "rv.shard", "--prop", prop, "--tier", tier, "--seed", str(seed),
           "--shard", str(shard), "--nshards", str(nshards), "--cases", str(cases),
           "--deadline", str(deadline), "--out", out, *extra]
    env = dict(os.environ)
    env["PYTHONHASHSEED"] = "0"
    env["REAMBER_VERIF"] = "1"
    env["PYTHONPATH"] = core.VERIF_DIR
    env.setdefault("OMP_NUM_THREADS", "1")
    env.setdefault("OPENBLAS_NUM_THREADS", "1")
    try:
        p = subprocess.run(cmd, cwd=core.VERIF_DIR, env=env, timeout=timeout,
                           stdout=subprocess.PIPE, stderr=subprocess.PIPE, text=True)
    except subprocess.TimeoutExpired:
        return dict(shard=shard, status="timeout")
    if p.returncode != 0 or not os.path.exists(out):
        return dict(shard=shard, status="crash", stderr=(p.stderr or "")[-3000:], rc=p.returncode)
    with open(out) as f:
        r = json.load(f)
    r["status"] = "ok"
    return r


def aggregate(results):
    agg = dict(cases=0, case_hashes=set(), nontrivial=set(), classes=Counter(), counters=Counter(),
               reach=Counter(), states={}, violations=[], samples=[], notes=[], not_run=0,
               timeouts=0, crashes=[], shard_wall=[])
    for r in results:
        if r["status"] == "timeout":
            agg["timeouts"] += 1
            continue
        if r["status"] == "crash":
            agg["crashes"].append(dict(shard=r["shard"], rc=r.get("rc"), stderr=r.get("stderr", "")[-1200:]))
            continue
        agg["cases"] += r["cases"]
        agg["case_hashes"].update(r["case_hashes"])
        agg["nontrivial"].update(r["nontrivial_hashes"])
        agg["classes"].update(r["classes"])
        agg["counters"].update(r["counters"])
        agg["reach"].update(r["reach"])
        for k, v in r["states"].items():
            agg["states"].setdefault(k, set()).update(v)
        agg["violations"].extend(r["violations"])
        for s in r["samples"]:
            if len(agg["samples"]) < 6:
                agg["samples"].append(s)
        agg["notes"].extend(r["notes"])
        agg["not_run"] += r.get("not_run", 0)
        agg["shard_wall"].append(round(r["wall_s"], 1))
    return agg


def monitor_table(counters: Counter) -> dict:
    tab: dict = {}
    for k, v in counters.items():
        mon, _, rest = k.partition("|")
        if not rest:
            mon, rest = "_misc", k
        tab.setdefault(mon, {})[rest] = v
    return tab


def main(prop: str, tier: str, seed: int, replay: str | None = None) -> int:
    t0 = time.time()
    sys.path.insert(0, core.VERIF_DIR)
    ensure_deps()
    mod = importlib.import_module(f"checks.{prop}")
    budget = mod.BUDGET[tier]
    scale = float(os.environ.get("VERIF_SCALE", "1"))
    ncases = max(1, int(budget["cases"] * scale))
    nshards = min(budget.get("shards", 8), ncases)
    deadline = budget.get("deadline", 100) * max(1.0, scale)
    timeout = deadline * 2 + 120
    workdir = tempfile.mkdtemp(prefix=f"verif_{prop}_")
    try:
        if replay:
            r = run_shard(prop, tier, seed, 0, 1, 1, deadline, timeout, workdir,
                          extra=("--case-file", replay))
            results = [r]
        else:
            with ThreadPoolExecutor(max_workers=min(16, nshards)) as ex:
                futs = [ex.submit(run_shard, prop, tier, seed, i, nshards, ncases, deadline,
                                  timeout, workdir) for i in range(nshards)]
                results = [f.result() for f in futs]
    finally:
        shutil.rmtree(workdir, ignore_errors=True)

    agg = aggregate(results)
    kf = core.load_known_findings()
    mine = [v for v in agg["violations"] if v["prop"] == prop]
    others = Counter(v["prop"] for v in agg["violations"] if v["prop"] != prop)
    known_hits: dict = {}
    new = []
    for v in mine:
        f = core.match_finding(v, kf.get("findings", []))
        if f is not None:
            known_hits.setdefault(f["id"], dict(finding=f, n=0, example=v))["n"] += 1
        else:
            new.append(v)

    # ---- verdict ---------------------------------------------------------
    deciding = getattr(mod, "DECIDING", [])
    judged = {m: agg["counters"].get(f"{m}|held", 0) + agg["counters"].get(f"{m}|violated", 0)
              for m in deciding}
    reach_req = getattr(mod, "REQUIRED_REACH", {}).get(tier, [])
    reach_missing = [r for r in reach_req if agg["reach"].get(r, 0) == 0 and agg["counters"].get(r, 0) == 0
                     and agg["counters"].get(f"reach.unlocatable.{r}", 0) == 0]
    inconclusive = []
    if not replay:
        if agg["timeouts"]:
            inconclusive.append(f"{agg['timeouts']} shard(s) hit the watchdog")
        if agg["crashes"]:
            inconclusive.append(f"{len(agg['crashes'])} shard(s) crashed: " + agg["crashes"][0]["stderr"][-300:].replace("\n", " | "))
        for m, n in judged.items():
            if n == 0:
                inconclusive.append(f"deciding monitor {m} judged 0 events")
        if reach_missing:
            inconclusive.append("mechanism never reached: " + ",".join(reach_missing))
        if agg["counters"].get("harness.error", 0):
            inconclusive.append(f"{agg['counters']['harness.error']} harness error(s): " + (agg["notes"][0][-300:].replace("\n", " | ") if agg["notes"] else ""))

    # ---- replay files ----------------------------------------------------
    rc = 0
    lines = []
    for fid, h in known_hits.items():
        lines.append(f"KNOWN-FINDING: property={prop} {fid}: {h['finding']['what']} (seen {h['n']}x this run)")
    if new:
        rdir = os.path.join(os.environ.get("VERIF_REPLAY_DIR") or os.path.join(core.VERIF_DIR, "replays"), prop)
        os.makedirs(rdir, exist_ok=True)
        seen_keys = set()
        first_path = None
        for v in new:
            key = (v["monitor"], v["clause"])
            if key in seen_keys and len(seen_keys) > 0 and sum(1 for _ in seen_keys) >= 1 and v.get("case") is None:
                continue
            if len(seen_keys) >= 12 and key in seen_keys:
                continue
            seen_keys.add(key)
            path = os.path.join(rdir, f"{v['monitor']}.{v['clause']}.{core.canon_hash([v['case_k'], v['seed'], v['msg']])}.json".replace("/", "_"))
            with open(path, "w") as f:
                json.dump(v, f, indent=1)
            if first_path is None:
                first_path = path
        rc = 1
        byclause = Counter((v["monitor"], v["clause"]) for v in new)
        for (m, c), n in byclause.most_common(12):
            ex = next(v for v in new if v["monitor"] == m and v["clause"] == c)
            lines.append(f"  violation monitor={m} clause={c} n={n} e.g. {ex['msg'][:300]}")
        lines.append(f"VIOLATION property={prop} replay={first_path}")
    elif inconclusive:
        rc = 2
        lines.append(f"INCONCLUSIVE property={prop} reason=" + "; ".join(inconclusive)[:1500])

    if rc == 1 and inconclusive:
        lines.append("  note (harness): " + "; ".join(inconclusive)[:600])
    wall = time.time() - t0
    if not replay:
        write_evidence(mod, prop, tier, seed, agg, known_hits, new, others, inconclusive, judged, wall, nshards, ncases)
    for ln in lines:
        print(ln)
    tab = monitor_table(agg["counters"])
    summary = {m: {k: v for k, v in tab.get(m, {}).items() if "." not in k} for m in deciding}
    print(f"[{prop} {tier} seed={seed}] cases={agg['cases']} distinct_nontrivial={len(agg['nontrivial'])} "
          f"monitors={json.dumps(summary)} known={ {k: v['n'] for k, v in known_hits.items()} } "
          f"other_props={dict(others)} wall={wall:.1f}s rc={rc}")
    return rc


def write_evidence(mod, prop, tier, seed, agg, known_hits, new, others, inconclusive, judged, wall, nshards, ncases):
    tab = monitor_table(agg["counters"])
    cov = dict(
        evaluations=agg["cases"],
        distinct_nontrivial=len(agg["nontrivial"]),
        distinct_cases=len(agg["case_hashes"]),
        rule=getattr(mod, "RULE", "") + " The workload classes were widened after the first build (DESIGN.md 8.4 lists every addition: value pools, "
        "file forms, ask / edit in place / ask again sequences); in every check each shard also runs an unjudged battery of unrelated library calls "
        "first or after five cases (process history) and every fifth case runs under pandas copy-on-write - see distinct_states for what was observed. "
        "A case counts as non-trivial iff, while it ran, a deciding monitor "
        "judged at least one in-domain event; distinct = sha1 of the canonical case.",
        samples=agg["samples"] or [{"note": "no judged case"}],
        classes=dict(agg["classes"]),
        monitors=tab,
        deciding_monitors_judged=judged,
        mechanism_reach=dict(agg["reach"]),
        distinct_states={k: dict(n=len(v), some=sorted(v)[:40]) for k, v in agg["states"].items()},
        known_findings_seen={k: v["n"] for k, v in known_hits.items()},
        new_violation_clauses=dict(Counter(f"{v['monitor']}.{v['clause']}" for v in new)),
        other_property_observations=dict(others),
        inconclusive_reasons=inconclusive,
        shards=nshards,
        cases_requested=ncases,
        cases_not_run_deadline=agg["not_run"],
        shard_wall_s=agg["shard_wall"],
        watchdog_firings=agg["timeouts"],
        tolerances=getattr(mod, "TOLERANCES", {}),
        verdict="violated" if new else ("inconclusive" if inconclusive else "held on what was observed"),
        exhaustive=False,
    )
    ev = dict(
        property_id=prop,
        tier=tier,
        seed=seed,
        level="exploration",
        coverage=cov,
        assumptions=getattr(mod, "ASSUMPTIONS", []),
        wall_s=round(wall, 2),
        violations=len(new),
    )
    # runs against a scratch tree (mutants, seeded changes) keep the committed evidence untouched
    evdir = os.environ.get("VERIF_EVIDENCE_DIR") or os.path.join(core.VERIF_DIR, "evidence")
    os.makedirs(evdir, exist_ok=True)
    with open(os.path.join(evdir, f"{prop}.json"), "w") as f:
        json.dump(ev, f, indent=1, sort_keys=False)
