"""One shard of one check, run as a subprocess:  python -m rv.shard ...

Cases k = shard, shard+nshards, ... < total are generated from a per-case RNG
(so a single case can be regenerated for replay) and executed under the
monitors the check installs.  The result (counters, violations, samples) is
written as JSON; the parent aggregates.
"""
from __future__ import annotations

import argparse
import importlib
import json
import logging
import os
import sys
import time
import warnings


def bootstrap_paths():
    here = os.path.dirname(os.path.dirname(os.path.abspath(__file__)))
    repo = os.environ.get("VERIF_REPO", "/repo")
    deps = os.path.join(here, ".deps")
    for p in (deps, here, repo):
        if p in sys.path:
            sys.path.remove(p)
        sys.path.insert(0, p)
    warnings.filterwarnings("ignore")
    logging.disable(logging.CRITICAL)
    os.environ.setdefault("REAMBER_VERIF", "1")
    import reamber

    want = os.path.realpath(os.path.join(repo, "reamber"))
    got = os.path.realpath(os.path.dirname(reamber.__file__))
    assert got == want, f"reamber imported from {got}, expected {want}"


def main(argv=None):
    ap = argparse.ArgumentParser()
    ap.add_argument("--prop", required=True)
    ap.add_argument("--tier", default="quick")
    ap.add_argument("--seed", type=int, default=0)
    ap.add_argument("--shard", type=int, default=0)
    ap.add_argument("--nshards", type=int, default=1)
    ap.add_argument("--cases", type=int, default=100)
    ap.add_argument("--deadline", type=float, default=1e9, help="soft wall budget (s)")
    ap.add_argument("--only", type=int, default=None, help="replay a single case index")
    ap.add_argument("--case-file", default=None, help="replay: JSON file holding the case")
    ap.add_argument("--out", required=True)
    a = ap.parse_args(argv)

    bootstrap_paths()
    from rv import core

    mod = importlib.import_module(f"checks.{a.prop}")
    ctx = core.Ctx(a.prop, a.tier, a.seed, a.shard, a.nshards)
    core.set_ctx(ctx)
    mod.setup(ctx)

    t0 = time.time()
    not_run = 0

    cow_mod = int(os.environ.get("VERIF_PANDAS_COW_EVERY", getattr(mod, "PANDAS_COW_EVERY", 5)) or 0)

    def run_one(k, case):
        ctx.begin_case(k, case)
        try:
            if cow_mod and k >= 0 and k % cow_mod == cow_mod - 1:
                # pandas' copy-on-write mode (an option of pandas 2, the only mode of pandas 3): same answers expected
                import pandas as pd

                ctx.state("pandas.copy_on_write", True)
                with pd.option_context("mode.copy_on_write", True):
                    mod.run(ctx, case)
            else:
                mod.run(ctx, case)
        except Exception as e:  # harness error, not a verdict
            ctx.counters["harness.error"] += 1
            if len(ctx.notes) < 20:
                ctx.notes.append(f"harness error in case {k}: {core.short_tb(e)}")
        ctx.end_case()

    if a.case_file is not None:
        ctx.replaying = True
        with open(a.case_file) as f:
            rec = json.load(f)
        if (rec.get("process") or {}).get("prelude_done"):
            from rv.prelude import unrelated_history

            unrelated_history(ctx)   # the violation was seen after the unrelated-history battery: re-create that first
        case = rec["case"] if "case" in rec and rec["case"] is not None else None
        if case is None:
            case = mod.gen(core.case_rng(rec["seed"], a.prop, rec["case_k"]), a.tier, rec["case_k"])
        run_one(rec.get("case_k", 0), case)
    elif a.only is not None:
        ctx.replaying = True
        case = mod.gen(core.case_rng(a.seed, a.prop, a.only), a.tier, a.only)
        run_one(a.only, case)
    else:
        from rv.prelude import unrelated_history

        prelude_after = 0 if a.shard % 2 == 0 else 5  # both orders: unrelated calls first / some cases first
        n_run = 0
        if prelude_after == 0:
            unrelated_history(ctx)
        if hasattr(mod, "pinned"):
            for i, case in enumerate(mod.pinned(a.tier)):
                if i % a.nshards == a.shard:
                    run_one(-1 - i, case)
        for k in range(a.shard, a.cases, a.nshards):
            if time.time() - t0 > a.deadline:
                not_run += 1
                continue
            case = mod.gen(core.case_rng(a.seed, a.prop, k), a.tier, k)
            run_one(k, case)
            n_run += 1
            if prelude_after and n_run == prelude_after:
                unrelated_history(ctx)
        if hasattr(mod, "finish"):
            mod.finish(ctx)

    res = ctx.result()
    res["not_run"] = not_run
    with open(a.out, "w") as f:
        json.dump(res, f)
    return 0


if __name__ == "__main__":
    sys.exit(main())
