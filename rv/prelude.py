"""Earlier, unrelated calls in the same process.

The properties hold "after any earlier operations"; state kept at module or class
level (memo tables, name caches, frame attributes) is only visible when something
else was asked first.  Every shard therefore runs this battery of ordinary public
API calls that no check needs - before its first case (even shards) or after a
few cases (odd shards), so that both orders occur.  Nothing here is judged by
itself; the monitors that are installed see these calls like any others."""
from __future__ import annotations


def unrelated_history(ctx):
    import warnings

    warnings.filterwarnings("ignore")
    done = 0
    with ctx.quiet():
        for step in (_base_lists, _coarse_snappers, _timing_maps, _small_charts_of_every_game, _patterns):
            try:
                step()
                done += 1
            except Exception as e:  # never a verdict: the battery is only history
                ctx.counters["prelude.step_raised"] += 1
                if len(ctx.notes) < 20:
                    ctx.notes.append(f"prelude {step.__name__}: {type(e).__name__}: {e}")
    ctx.state("prelude.steps_done", done)
    ctx.prelude_done = True


def _base_lists():
    """the generic (game-less) classes, built, iterated, sorted, filtered, stacked, rated"""
    from reamber.base.Bpm import Bpm
    from reamber.base.Hit import Hit
    from reamber.base.Hold import Hold
    from reamber.base.Map import Map
    from reamber.base.MapSet import MapSet
    from reamber.base.lists.BpmList import BpmList
    from reamber.base.lists.notes.HitList import HitList
    from reamber.base.lists.notes.HoldList import HoldList

    m = Map()
    m.hits = HitList([Hit(offset=1000.5, column=1), Hit(offset=10, column=0), Hit(offset=2000, column=3)])
    m.holds = HoldList([Hold(offset=3000, column=2, length=500.25), Hold(offset=500, column=0, length=0)])
    m.bpms = BpmList([Bpm(offset=0, bpm=120), Bpm(offset=1500.75, bpm=180.5)])
    for lst in (m.hits, m.holds, m.bpms):
        list(lst)
        lst.sorted()
        lst.sorted(reverse=True)
        lst.after(100)
        lst.before(2500, include_end=True)
        lst.between(0, 3000)
        lst.first_offset(), lst.last_offset()
        lst[0], lst[-1], lst[0:2]
        lst.append(lst[0])
        lst.append(lst, sort=True)
        type(lst).empty(2)
    m.holds.tail_offset
    m.stack().offset *= 1
    m.rate(1.5)
    m.deepcopy()
    MapSet([m, m.deepcopy()]).rate(0.5)
    m.bpms.to_timing_map()
    m.bpms.current_bpm(1000)


def _coarse_snappers():
    """snappers with other divisions than the default, over the remainders charts commonly have"""
    from fractions import Fraction

    from reamber.algorithms.timing.utils.Snapper import Snapper

    vals = sorted({float(Fraction(n, d)) for d in (1, 2, 3, 4, 5, 6, 7, 8, 9, 12, 16, 24, 32, 48, 64, 96, 192) for n in range(d)} |
                  {0.1, 0.2, 0.3, 0.7, 0.333, 0.667, 0.001, 0.999, 0.0052, 0.0104})
    for divs in ((2,), (1,), (3,), (4, 6), (1, 2, 3, 4, 5, 6, 7, 8, 9, 10, 12, 16, 32, 64, 96), (5, 7)):
        s = Snapper(divisions=divs)
        for v in vals:
            s.snap(v)
            s.snap(v + 3)


def _timing_maps():
    from reamber.algorithms.timing.TimingMap import TimingMap
    from reamber.algorithms.timing.utils.BpmChangeOffset import BpmChangeOffset
    from reamber.algorithms.timing.utils.BpmChangeSnap import BpmChangeSnap
    from reamber.algorithms.timing.utils.Snapper import Snapper
    from reamber.algorithms.timing.utils.snap import Snap

    tm = TimingMap.from_bpm_changes_offset([BpmChangeOffset(100, 3, 0), BpmChangeOffset(250, 5, 777.5), BpmChangeOffset(60, 4, 5000)])
    sn = Snapper(divisions=(1, 2))
    tm.snaps([0, 10, 333.3, 777.5, 1000, 6000.25], sn)
    tm.beats([0, 600, 1200], Snapper())
    tm.offsets([Snap(0, 0, 3), Snap(1, 1.5, 3), Snap(4, 0, 5)])
    tm.reseat()
    tm2 = TimingMap.from_bpm_changes_snap(-250.0, [BpmChangeSnap(140, 4, Snap(0, 0, 4)), BpmChangeSnap(70, 4, Snap(2, 2.5, 4))], True)
    tm2.snaps([0, 100, 5000], Snapper())
    tm2.bpm_changes_snap()


def _small_charts_of_every_game():
    """one small chart per game: built, written where the game can be written, converted once"""
    import random

    from rv.gen import charts

    rng = random.Random(20260101)
    for game in charts.GAMES:
        spec = charts.gen_spec(rng, game, n=5)
        obj = charts.build(spec)
        for m in (obj.maps if hasattr(obj, "maps") else [obj]):
            for lst in m.objs.values():
                list(lst)
                lst.sorted()
            m.stack()
        try:
            obj.rate(2.0)
        except Exception:
            pass
        try:
            if game == "bms":
                from reamber.bms.BMSChannel import BMSChannel
                obj.write(BMSChannel.BME)
            elif game != "o2j":
                obj.write()
        except Exception:
            pass


def _patterns():
    from reamber.algorithms.pattern import Pattern
    from reamber.algorithms.pattern.combos import PtnCombo
    from reamber.base.Hit import Hit
    from reamber.base.Hold import Hold, HoldTail

    p = Pattern([0, 1, 2, 1, 3, 0], [0.0, 0.0, 100.0, 200.0, 200.0, 350.0], [Hit, Hold, Hit, HoldTail, Hit, Hit])
    g = p.group(v_window=60, h_window=2, avoid_jack=False)
    PtnCombo(g).combinations(size=3, make_size2=True)
    p.group(v_window=0, h_window=None, avoid_jack=True)
