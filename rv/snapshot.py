"""Canonical snapshots of TimedLists / Maps / MapSets (values, columns, dtypes,
row labels, metadata) used by the frozen-argument contract (C14), the rate
contract (C13), the converters' monitors (C08) and the schema/NaN walker."""
from __future__ import annotations

import copy
import dataclasses
import math

import numpy as np
import pandas as pd


def _val(v):
    if isinstance(v, (np.generic,)):
        v = v.item()
    if isinstance(v, float) and math.isnan(v):
        return "NaN"
    if isinstance(v, (list, dict)):
        return repr(v)
    return v


def rows(tl, cols=None):
    """List of tuples (python values) of the given columns, in row order."""
    df = tl.df
    cols = list(df.columns) if cols is None else cols
    arrs = [df[c].tolist() for c in cols]
    return [tuple(_val(v) for v in r) for r in zip(*arrs)] if arrs else []


def list_snapshot(tl):
    df = tl.df
    return dict(
        cls=type(tl).__name__,
        columns=list(map(str, df.columns)),
        dtypes=[str(t) for t in df.dtypes],
        index=[_val(i) for i in df.index.tolist()],
        rows=rows(tl),
    )


def is_timed_list(x):
    return hasattr(x, "df") and hasattr(x, "_item_class") and isinstance(getattr(x, "df", None), pd.DataFrame)


def is_map(x):
    return hasattr(x, "objs") and isinstance(getattr(x, "objs", None), dict)


def is_mapset(x):
    return hasattr(x, "maps") and isinstance(getattr(x, "maps", None), list)


def meta_snapshot(obj):
    """Dataclass fields other than the lists (deep-copied, lists of TimedList -> snapshot)."""
    out = {}
    if not dataclasses.is_dataclass(obj):
        return out
    for f in dataclasses.fields(obj):
        if f.name in ("objs", "maps"):
            continue
        v = getattr(obj, f.name, None)
        if is_timed_list(v):
            out[f.name] = list_snapshot(v)
        else:
            try:
                out[f.name] = copy.deepcopy(v)
            except Exception:
                out[f.name] = repr(v)
    return out


def snapshot(x, depth=0):
    """Canonical snapshot of anything reachable that matters."""
    if is_timed_list(x):
        return ("list", list_snapshot(x))
    if is_map(x):
        return ("map", type(x).__name__, {k: list_snapshot(v) for k, v in x.objs.items()}, meta_snapshot(x))
    if is_mapset(x):
        return ("mapset", type(x).__name__, [snapshot(m, depth + 1) for m in x.maps], meta_snapshot(x))
    if isinstance(x, (list, tuple)) and depth < 2 and any(is_timed_list(i) or is_map(i) or is_mapset(i) for i in x):
        return ("seq", [snapshot(i, depth + 1) for i in x])
    return None


def diff_snapshots(a, b, path=""):
    """First difference between two snapshots as text, or None."""
    if type(a) != type(b):
        return f"{path}: type {type(a).__name__} -> {type(b).__name__}"
    if isinstance(a, dict):
        if list(a.keys()) != list(b.keys()):
            return f"{path}: keys {list(a.keys())} -> {list(b.keys())}"
        for k in a:
            d = diff_snapshots(a[k], b[k], f"{path}.{k}")
            if d:
                return d
        return None
    if isinstance(a, (list, tuple)):
        if len(a) != len(b):
            return f"{path}: length {len(a)} -> {len(b)}"
        for i, (x, y) in enumerate(zip(a, b)):
            d = diff_snapshots(x, y, f"{path}[{i}]")
            if d:
                return d
        return None
    if isinstance(a, float) and isinstance(b, float) and math.isnan(a) and math.isnan(b):
        return None
    try:
        same = a == b
        if isinstance(same, (np.ndarray, pd.Series, pd.DataFrame)):
            same = bool(np.all(same))
    except Exception:
        same = repr(a) == repr(b)
    if not same:
        return f"{path}: {a!r} -> {b!r}"[:400]
    return None


def walk_lists(x, depth=0):
    """Yield (path, TimedList) for every list reachable from x."""
    if is_timed_list(x):
        yield "", x
    elif is_map(x):
        for k, v in x.objs.items():
            yield k, v
        if dataclasses.is_dataclass(x):
            for f in dataclasses.fields(x):
                v = getattr(x, f.name, None)
                if f.name != "objs" and is_timed_list(v):
                    yield f.name, v
    elif is_mapset(x):
        for i, m in enumerate(x.maps):
            for p, v in walk_lists(m, depth + 1):
                yield f"maps[{i}].{p}", v
    elif isinstance(x, (list, tuple)) and depth < 2:
        for i, m in enumerate(x):
            for p, v in walk_lists(m, depth + 1):
                yield f"[{i}].{p}", v


def schema_problems(tl):
    """Declared-fields invariant of a TimedList: columns are exactly the
    declared props of its item class and no declared field holds NaN/None."""
    probs = []
    declared = list(type(tl).props().names) if hasattr(type(tl), "props") else None
    cols = list(map(str, tl.df.columns))
    if declared is not None and set(cols) != set(declared):
        extra = sorted(set(cols) - set(declared))
        missing = sorted(set(declared) - set(cols))
        probs.append(f"columns: extra={extra} missing={missing}")
    for c in cols:
        if declared is not None and c not in declared:
            continue
        s = tl.df[c]
        try:
            n = int(s.isna().sum())
        except Exception:
            n = 0
        if n:
            probs.append(f"{n} missing value(s) in field '{c}'")
    return probs
