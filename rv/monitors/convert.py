"""C08: postcondition contracts + schema invariant on the 16 converters and
O2JToSM.convert_merge; frozen-argument contract (C14) on the source."""
from __future__ import annotations

import importlib
import math
from collections import Counter

from rv import core
from rv.install import monitor, patch_method
from rv.monitors.algos import frozen, game_of
from rv.snapshot import rows, schema_problems, snapshot

CONVERTERS = ["BMSToOsu", "BMSToQua", "BMSToSM", "O2JToBMS", "O2JToOsu", "O2JToQua", "O2JToSM", "OsuToBMS", "OsuToQua", "OsuToSM",
              "QuaToBMS", "QuaToOsu", "QuaToSM", "SMToBMS", "SMToOsu", "SMToQua"]
GAME = {"BMS": "bms", "O2J": "o2j", "Osu": "osu", "Qua": "qua", "SM": "sm"}


def split_name(n):
    a, b = n.split("To")
    return GAME[a], GAME[b]


def charts_of(x):
    """[(meta container, map)] of a Map, MapSet or list of them, in order."""
    if isinstance(x, (list, tuple)):
        return [c for i in x for c in charts_of(i)]
    if hasattr(x, "maps"):
        return [(x, m) for m in x.maps]
    return [(x, x)]


def text(x):
    if isinstance(x, bytes):
        try:
            return x.decode("shift_jis")
        except Exception:
            return x.decode("shift_jis", errors="replace")
    return "" if x is None else str(x)


def same_text(src, tgt):
    from unidecode import unidecode

    a, b = text(src), text(tgt)
    return a == b or unidecode(a).strip() == unidecode(b).strip()


def src_meta(game, ms, m, idx):
    if game == "osu":
        return dict(title=m.title, artist=m.artist, creator=m.creator, diff=[m.version])
    if game == "qua":
        return dict(title=m.title, artist=m.artist, creator=m.creator, diff=[m.difficulty_name])
    if game == "bms":
        return dict(title=m.title, artist=m.artist, creator=None, diff=[m.version])
    if game == "sm":
        return dict(title=ms.title, artist=ms.artist, creator=ms.credit, diff=[f"{m.difficulty} {m.difficulty_val}", m.difficulty, m.description])
    if game == "o2j":
        lv = ms.level[idx] if idx < len(ms.level) else None
        return dict(title=ms.title, artist=ms.artist, creator=ms.creator, diff=[f"Level {lv}", str(lv)])


def tgt_meta(game, ms, m):
    if game == "osu":
        return dict(title=m.title, artist=m.artist, creator=m.creator, diff=[m.version])
    if game == "qua":
        return dict(title=m.title, artist=m.artist, creator=m.creator, diff=[m.difficulty_name])
    if game == "bms":
        return dict(title=m.title, artist=m.artist, creator=None, diff=[m.version])
    if game == "sm":
        return dict(title=ms.title, artist=ms.artist, creator=ms.credit, diff=[m.description, m.difficulty, f"{m.difficulty} {m.difficulty_val}"])


def content(m):
    d = dict(
        hits=Counter((float(o), float(c)) for o, c in rows(m.hits, ["offset", "column"])),
        holds=Counter((float(o), float(c), float(ln)) for o, c, ln in rows(m.holds, ["offset", "column", "length"])),
        bpms=Counter((float(o), float(b)) for o, b in rows(m.bpms, ["offset", "bpm"])),
    )
    if "svs" in m.objs:
        d["svs"] = Counter((float(o), float(x)) for o, x in rows(m.objs["svs"], ["offset", "multiplier"]))
    return d


def nan_in(c):
    return any(isinstance(v, float) and math.isnan(v) for k in c for v in k)


class JudgeConvert:
    def __init__(self, name, merge=False):
        self.name = name
        self.merge = merge
        self.sg, self.tg = split_name(name)
        self.mon = "convert"

    def pre(self, ctx, args, kwargs):
        src = args[1] if len(args) > 1 else list(kwargs.values())[0]
        return dict(snap=snapshot(src), content=[content(m) for _, m in charts_of(src)],
                    schema=[{k: schema_problems(v) for k, v in m.objs.items()} for _, m in charts_of(src)],
                    labels=all(list(v.df.index) == list(range(len(v.df))) for _, m in charts_of(src) for v in m.objs.values()))

    def __call__(self, ctx, args, kwargs, result, exc, pre):
        if pre is None:
            return
        mon = self.mon
        src = args[1] if len(args) > 1 else list(kwargs.values())[0]
        shift = kwargs.get("move_right_by", None)
        if shift is None:
            shift = args[2] if (len(args) > 2 and self.tg == "bms" and self.sg != "sm") else (1 if self.name == "O2JToBMS" else 0)
        frozen(ctx, "convert", pre["snap"], src, f"{self.name} source")
        sc = charts_of(src)
        if any(p for sch in pre["schema"] for k, p in sch.items() if k in ("hits", "holds", "bpms", "svs")):
            return ctx.ood(mon, "source_lists_break_their_own_schema")
        if any(nan_in(c[k]) for c in pre["content"] for k in c):
            return ctx.ood(mon, "source_has_missing_values")
        if not sc:
            return ctx.ood(mon, "source_without_charts")
        if self.tg == "bms":
            try:
                for i, (ms, m) in enumerate(sc):
                    sm_ = src_meta(self.sg, ms, m, i)
                    for f in ("title", "artist"):
                        text(sm_[f]).encode("shift_jis")
                    text(sm_["diff"][0]).encode("shift_jis")
            except UnicodeEncodeError:
                return ctx.ood(mon, "text_not_encodable_in_shift_jis")
        if self.sg == "bms":
            try:
                for ms, m in sc:
                    for f in (m.title, m.artist, m.version):
                        (f if isinstance(f, bytes) else str(f).encode()).decode("sjis")
            except UnicodeDecodeError:
                return ctx.ood(mon, "source_text_not_shift_jis")
        empty_chart = any(sum(len(v) for k, v in m.objs.items() if k in ("hits", "holds")) == 0 for _, m in sc)
        cname = self.name + ("_merge" if self.merge else "")
        feat = dict(target=self.tg, default_labels=pre["labels"], chart_without_notes=empty_chart)
        wit = dict(converter=cname, source=[{k: sorted(v.elements())[:20] for k, v in c.items()} for c in pre["content"]][:3], shift=shift)
        if exc is not None and isinstance(exc, ValueError) and "supported" in str(exc) and not kwargs.get("raise_bad_mode", True) is False:
            return ctx.ood(mon, "target_refuses_unsupported_key_count")
        if empty_chart and self.tg in ("qua", "sm"):
            return ctx.ood(mon, "no_notes_to_infer_the_key_count_from")
        if exc is not None:
            return ctx.violate("C08", mon, "raises", f"{cname} raised {type(exc).__name__}: {exc}", dict(wit, tb=core.short_tb(exc)), feat)
        tc = charts_of(result)
        if len(tc) != len(sc):
            return ctx.violate("C08", mon, "chart_count", f"{len(sc)} source chart(s), {len(tc)} target chart(s)", wit, feat)
        for i, ((sms, sm_), (tms, tm_)) in enumerate(zip(sc, tc)):
            if game_of(tm_) != self.tg:
                return ctx.violate("C08", mon, "target_game", f"chart {i} is a {type(tm_).__name__}", wit, feat)
            for lname, tl in tm_.objs.items():
                probs = schema_problems(tl)
                if probs:
                    return ctx.violate("C08", mon, "schema", f"chart {i} list {lname} ({type(tl).__name__}): {probs}", wit, dict(feat, list=lname))
            want = pre["content"][i]
            got = content(tm_)
            wit["target"] = {k: sorted(v.elements())[:20] for k, v in got.items()}
            exp = dict(
                hits=Counter({(o, c + shift): n for (o, c), n in want["hits"].items()}),
                holds=Counter({(o, c + shift, ln): n for (o, c, ln), n in want["holds"].items()}),
                bpms=want["bpms"],
            )
            if "svs" in want and "svs" in got:
                exp["svs"] = want["svs"]
            for k, w in exp.items():
                if got[k] != w:
                    extra = list((got[k] - w).items())[:3]
                    missing = list((w - got[k]).items())[:3]
                    return ctx.violate("C08", mon, k, f"chart {i} {k}: missing {missing}, extra {extra}", wit, feat)
            for other in [k for k in tm_.objs if k not in ("hits", "holds", "bpms", "svs")]:
                if len(tm_.objs[other]):
                    return ctx.violate("C08", mon, "invented_objects", f"chart {i}: target list {other} is not empty", wit, feat)
            if self.merge:
                smeta = src_meta(self.sg, sms, sm_, i)
                tmeta = tgt_meta(self.tg, tms, tm_)
            else:
                smeta = src_meta(self.sg, sms, sm_, i)
                tmeta = tgt_meta(self.tg, tms, tm_)
            for f in ("title", "artist", "creator"):
                if smeta[f] is None or tmeta[f] is None:
                    continue
                if not same_text(smeta[f], tmeta[f]):
                    return ctx.violate("C08", mon, "metadata", f"chart {i} {f}: source {text(smeta[f])!r}, target {text(tmeta[f])!r}", wit, dict(feat, field=f))
            if not self.merge:
                sdiffs = [text(d) for d in smeta["diff"] if text(d)]
                tdiffs = [text(d) for d in tmeta["diff"]]
                if sdiffs and not any(same_text(s, t) or (s and s in t) for s in sdiffs[:2] for t in tdiffs):
                    return ctx.violate("C08", mon, "metadata", f"chart {i} difficulty name: source {sdiffs[:2]}, target {tdiffs}", wit, dict(feat, field="difficulty"))
        ctx.held(mon, "content", len(sc))
        ctx.state("convert.case", (cname, feat["default_labels"], empty_chart))


def install(ctx):
    for name in CONVERTERS:
        mod = importlib.import_module("reamber.algorithms.convert." + name)
        cls = getattr(mod, name)
        patch_method(cls, "convert", monitor("convert", JudgeConvert(name)))
        if "convert_merge" in cls.__dict__:
            patch_method(cls, "convert_merge", monitor("convert", JudgeConvert(name, merge=True)))
