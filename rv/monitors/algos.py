"""R-monitors on the chart algorithms: full_ln (C17), hitsound_copy (C18),
dominant_bpm / scroll_speed / sv_normalize (C19).  Each also carries the
frozen-argument clause of C14 for its own arguments."""
from __future__ import annotations

import itertools
import math
from collections import Counter
from fractions import Fraction as F

from rv import core
from rv.install import monitor, patch_function
from rv.snapshot import diff_snapshots, list_snapshot, meta_snapshot, rows, schema_problems, snapshot

REL = 1e-9


def feq(a, b, rel=REL, abs_=1e-9):
    a, b = float(a), float(b)
    if math.isnan(a) or math.isnan(b):
        return math.isnan(a) and math.isnan(b)
    return abs(a - b) <= abs_ + rel * max(abs(a), abs(b))


def game_of(m):
    n = type(m).__name__
    for g, p in (("osu", "Osu"), ("qua", "Qua"), ("sm", "SM"), ("bms", "BMS"), ("o2j", "O2J")):
        if n.startswith(p):
            return g
    return "base"


def frozen(ctx, prop_monitor, pre, obj, what, also=None):
    """C14 clause for a monitored call: argument snapshot before == after.
    also: a property whose own statement says the inputs stay unchanged (C18)."""
    if pre is None:
        return
    d = diff_snapshots(pre, snapshot(obj))
    if d:
        ctx.violate("C14", prop_monitor, "argument_modified", f"{what}: {d}", dict(diff=d), dict(op=prop_monitor, arg=what))
        if also:
            ctx.violate(also, prop_monitor, "input_modified", f"{what} was modified by the call: {d}", dict(diff=d), dict(arg=what))
    else:
        ctx.held(prop_monitor + ".frozen", "argument_unchanged")


# ---------------------------------------------------------------------------
# C17 full_ln

def notes_of(m):
    """[(offset, column, length|None)] of the chart's hit and hold lists."""
    out = [(float(o), c, None) for o, c in rows(m.hits, ["offset", "column"])]
    out += [(float(o), c, float(ln)) for o, c, ln in rows(m.holds, ["offset", "column", "length"])]
    return out


def full_ln_expected(notes, gap, thres, max_orders=96):
    """All acceptable results as (hits Counter, holds Counter) for every
    processing order of same-time same-column notes.  None if too many."""
    cols = {}
    for n in notes:
        cols.setdefault(n[1], []).append(n)
    per_col_alts = []
    total = 1
    for c, ns in cols.items():
        groups = {}
        for n in ns:
            groups.setdefault(n[0], []).append(n)
        times = sorted(groups)
        perms = []
        for t in times:
            g = groups[t]
            # identical notes permute to the same result
            ps = sorted(set(itertools.permutations(g)), key=repr) if len(g) <= 3 else None
            if ps is None:
                return None
            perms.append(ps)
        alts = []
        n_alt = 1
        for ps in perms:
            n_alt *= len(ps)
        if n_alt > max_orders:
            return None
        for combo in itertools.product(*perms):
            seq = [n for grp in combo for n in grp]
            hits, holds = [], []
            for i, (o, col, ln) in enumerate(seq):
                if i == len(seq) - 1:
                    (hits if ln is None else holds).append((o, col) if ln is None else (o, col, ln))
                    continue
                inv = (seq[i + 1][0] - o) - gap
                if inv >= thres:
                    holds.append((o, col, inv))
                else:
                    hits.append((o, col))
            alts.append((tuple(sorted(hits)), tuple(sorted(holds))))
        alts = sorted(set(alts))
        total *= len(alts)
        if total > max_orders:
            return None
        per_col_alts.append(alts)
    return per_col_alts


def _match_col(alts, got_hits, got_holds):
    for hits, holds in alts:
        if len(hits) != len(got_hits) or len(holds) != len(got_holds):
            continue
        if all(feq(a[0], b[0]) for a, b in zip(hits, got_hits)) and \
                all(feq(a[0], b[0]) and feq(a[2], b[2]) for a, b in zip(holds, got_holds)):
            return True
    return False


class JudgeFullLn:
    def pre(self, ctx, args, kwargs):
        m = args[0] if args else kwargs["m"]
        return dict(snap=snapshot(m), notes=notes_of(m), others={k: list_snapshot(v) for k, v in m.objs.items() if k not in ("hits", "holds")},
                    meta=meta_snapshot(m))

    def __call__(self, ctx, args, kwargs, result, exc, pre):
        if pre is None:
            return
        m = args[0] if args else kwargs["m"]
        gap = kwargs.get("gap", args[1] if len(args) > 1 else 150)
        thres = kwargs.get("ln_as_hit_thres", args[2] if len(args) > 2 else 100)
        frozen(ctx, "full_ln", pre["snap"], m, "m")
        notes = pre["notes"]
        game = game_of(m)
        if not (gap >= 0 and thres >= 0):
            return ctx.ood("full_ln", "negative_gap_or_threshold")
        if any(math.isnan(o) or (ln is not None and (math.isnan(ln) or ln < 0)) for o, c, ln in notes):
            return ctx.ood("full_ln", "nan_or_negative_length")
        probs = [p for k in ("hits", "holds") for p in schema_problems(m.objs[k])]
        feat = dict(game=game,
                    other_note_lists_present=any(len(v) for k, v in m.objs.items() if k not in ("hits", "holds", "bpms", "svs", "stops")),
                    input_schema_broken=bool(probs))
        alts = full_ln_expected(notes, gap, thres)
        if alts is None:
            return ctx.ood("full_ln", "tie_group_too_large")
        wit = dict(notes=notes[:80], gap=gap, thres=thres)
        if exc is not None:
            return ctx.violate("C17", "full_ln", "raises", f"full_ln raised {type(exc).__name__}: {exc}", dict(wit, tb=core.short_tb(exc)), feat)
        r = result
        if type(r) is not type(m) or type(r.hits) is not type(m.hits) or type(r.holds) is not type(m.holds):
            return ctx.violate("C17", "full_ln", "types", f"result types {type(r).__name__}/{type(r.hits).__name__}/{type(r.holds).__name__}", wit, feat)
        got = notes_of(r)
        wit["result"] = got[:80]
        # conservation of (time, column)
        cw = Counter((o, c) for o, c, _ in notes)
        cg = Counter((o, c) for o, c, _ in got)
        if cw != cg:
            extra = list((cg - cw).items())[:4]
            missing = list((cw - cg).items())[:4]
            return ctx.violate("C17", "full_ln", "conservation", f"notes (time, column) not conserved: extra {extra}, missing {missing}", wit, feat)
        # the rule, per column
        cols = sorted({c for _, c, _ in notes}, key=float)
        gcols = {}
        for o, c, ln in got:
            gcols.setdefault(c, ([], []))[0 if ln is None else 1].append((o, c) if ln is None else (o, c, ln))
        colkeys = list({n[1]: None for n in notes}.keys())
        for c, a in zip(colkeys, alts):
            gh, gl = gcols.get(c, ([], []))
            if not _match_col(a, sorted(gh), sorted(gl)):
                return ctx.violate("C17", "full_ln", "rule", f"column {c}: result hits {sorted(gh)[:6]} holds {sorted(gl)[:6]} match no acceptable outcome, e.g. expected hits {list(a[0][0])[:6]} holds {list(a[0][1])[:6]}", wit, feat)
        # no generated hold reaches the next note of its column
        for c in colkeys:
            gh, gl = gcols.get(c, ([], []))
            times = sorted(x[0] for x in gh + gl)
            last = times[-1] if times else None
            for o, _, ln in gl:
                nxt = [t for t in times if t > o]
                if nxt and o + ln > nxt[0] + 1e-9 + REL * abs(nxt[0]):
                    orig = [n for n in notes if n[1] == c and n[0] == o and n[2] is not None and feq(n[2], ln)]
                    # the untouched last note of a tie group may legitimately keep its own length
                    if not (orig and o == last):
                        return ctx.violate("C17", "full_ln", "reaches_next", f"column {c}: hold at {o} length {ln} passes the next note at {nxt[0]}", wit, feat)
        # other lists and metadata unchanged
        for k, s in pre["others"].items():
            d = diff_snapshots(s, list_snapshot(r.objs[k])) if k in r.objs else "list missing"
            if d:
                return ctx.violate("C17", "full_ln", "other_lists", f"list {k} changed: {d}", wit, feat)
        d = diff_snapshots(pre["meta"], meta_snapshot(r))
        if d:
            return ctx.violate("C17", "full_ln", "other_lists", f"metadata changed: {d}", wit, feat)
        ctx.held("full_ln", "rule")
        ctx.state("full_ln.case", (game, gap == 0, thres == 0, len(notes) > 0, any(len(a) > 1 for a in alts)))


# ---------------------------------------------------------------------------
# C19

def tempo_points(m):
    return [(float(o), float(b)) for o, b in rows(m.bpms, ["offset", "bpm"])]


def all_offsets(m):
    out = []
    for v in m.objs.values():
        out += [float(o) for (o,) in rows(v, ["offset"])]
    return out


def hold_tails(m):
    out = []
    for v in m.objs.values():
        if "length" in v.df.columns and type(v).__name__.endswith(("HoldList", "RollList")):
            out += [float(o) + float(ln) for o, ln in rows(v, ["offset", "length"])]
    return out


def c19_domain(m, need_object=True):
    pts = tempo_points(m)
    if not pts:
        return "no_tempo_point"
    if any(not (b > 0) or not math.isfinite(b) for _, b in pts):
        return "non_positive_bpm"
    if len({o for o, _ in pts}) != len(pts):
        return "coincident_tempo_points"
    objs = [float(o) for k, v in m.objs.items() if k != "bpms" for (o,) in rows(v, ["offset"])]
    notes = [n[0] for n in notes_of(m)]
    if need_object and not notes:
        return "no_object"
    if any(math.isnan(x) for x in objs):
        return "nan_offset"
    if notes and min(o for o, _ in pts) > min(notes):
        return "first_object_before_first_tempo_point"
    return None


def dominant_candidates(m, tie_ms=1e-6):
    """bpm values maximal under either reading of 'last object'; and whether a
    near-tie (within 1 ms but not within tie_ms) exists."""
    pts = sorted(tempo_points(m))
    L1 = max(all_offsets(m))
    L2 = max([L1] + hold_tails(m))
    accepted = set()
    near = False
    for L in (L1, L2):
        tot = {}
        for i, (o, b) in enumerate(pts):
            end = pts[i + 1][0] if i + 1 < len(pts) else max(L, o)
            tot[b] = tot.get(b, F(0)) + (F(end) - F(o))
        mx = max(tot.values())
        for b, t in tot.items():
            if mx - t <= F(tie_ms):
                accepted.add(b)
            elif mx - t <= 1:
                near = True
    return accepted, near


class JudgeDominant:
    def pre(self, ctx, args, kwargs):
        return snapshot(args[0] if args else kwargs["m"])

    def __call__(self, ctx, args, kwargs, result, exc, pre):
        m = args[0] if args else kwargs["m"]
        frozen(ctx, "dominant_bpm", pre, m, "m")
        why = c19_domain(m)
        if why:
            return ctx.ood("dominant_bpm", why)
        pts = tempo_points(m)
        feat = dict(tempo_sorted=pts == sorted(pts))
        wit = dict(tempo=pts[:40], last_offset=max(all_offsets(m)), last_tail=max([0] + hold_tails(m)))
        if exc is not None:
            return ctx.violate("C19", "dominant_bpm", "raises", f"dominant_bpm raised {type(exc).__name__}: {exc}", dict(wit, tb=core.short_tb(exc)), feat)
        acc, near = dominant_candidates(m)
        if near:
            ctx.seen("dominant_bpm", "near_tie_cases")
        if not any(feq(result, b, 1e-12, 0) for b in acc):
            return ctx.violate("C19", "dominant_bpm", "maximal", f"returned {float(result)}, maximal-active-time bpm(s): {sorted(acc)}", wit, feat)
        ctx.held("dominant_bpm", "maximal")
        ctx.state("dominant.case", (game_of(m), min(len(pts), 4), feat["tempo_sorted"], len(acc) > 1))


def sv_points(m):
    if "svs" not in m.objs:
        return None
    return [(float(o), float(x)) for o, x in rows(m.objs["svs"], ["offset", "multiplier"])]


def speed_alternatives(pts, svs, t):
    """Acceptable (bpm, multiplier) pairs at time t >= first tempo point."""
    pts = sorted(pts)
    act = [p for p in pts if p[0] <= t]
    if not act:
        return None
    tb, bpm = act[-1]
    if svs is None:
        return [(bpm, 1.0)]
    cand = [s for s in svs if tb <= s[0] <= t]
    if not cand:
        return [(bpm, 1.0)]
    tmax = max(s[0] for s in cand)
    # An SV exactly on a tempo point is active from that time on ("an SV lasts until the NEXT SV or tempo point"; the
    # implementation's own comment gives a real SV precedence over the implicit reset).  Two SVs at one time: either.
    mults = {s[1] for s in cand if s[0] == tmax}
    return [(bpm, x) for x in mults]


class JudgeScroll:
    def pre(self, ctx, args, kwargs):
        return snapshot(args[0] if args else kwargs["m"])

    def __call__(self, ctx, args, kwargs, result, exc, pre):
        m = args[0] if args else kwargs["m"]
        ov = kwargs.get("override_bpm", args[1] if len(args) > 1 else None)
        frozen(ctx, "scroll_speed", pre, m, "m")
        why = c19_domain(m)
        if why:
            return ctx.ood("scroll_speed", why)
        if ov is not None and not (ov > 0):
            return ctx.ood("scroll_speed", "non_positive_override")
        pts = tempo_points(m)
        svs = sv_points(m)
        if svs is not None and any(not math.isfinite(x) for _, x in svs):
            return ctx.ood("scroll_speed", "nan_multiplier")
        feat = dict(override=ov is not None, tempo_sorted=pts == sorted(pts), has_sv_list=svs is not None)
        wit = dict(tempo=pts[:40], svs=(svs or [])[:40], override=ov)
        if exc is not None:
            return ctx.violate("C19", "scroll_speed", "raises", f"scroll_speed raised {type(exc).__name__}: {exc}", dict(wit, tb=core.short_tb(exc)), feat)
        idx = [float(i) for i in result.index.tolist()]
        vals = [float(v) for v in result.tolist()]
        wit["result"] = list(zip(idx, vals))[:60]
        need = {o for o, _ in pts} | {o for o, _ in (svs or [])}
        missing = sorted(need - set(idx))
        if missing:
            return ctx.violate("C19", "scroll_speed", "breakpoints", f"tempo/SV breakpoints missing from the index: {missing[:6]}", wit, feat)
        refs = [float(ov)] if ov is not None else sorted(dominant_candidates(m)[0])
        t0 = min(o for o, _ in pts)
        fails = {}
        for ref in refs:
            bad = None
            for t, v in zip(idx, vals):
                if t < t0:
                    continue
                alts = speed_alternatives(pts, svs, t)
                if not any(feq(v, b / ref * x, 1e-9, 1e-12) for b, x in alts):
                    bad = f"at {t}: speed {v}, expected one of {[b / ref * x for b, x in alts]} (reference bpm {ref})"
                    break
            if bad is None:
                fails = None
                break
            fails[ref] = bad
        if fails:
            return ctx.violate("C19", "scroll_speed", "value", list(fails.values())[0], wit, feat)
        ctx.held("scroll_speed", "value", 1)
        ctx.state("scroll.case", (game_of(m), min(len(pts), 3), min(len(svs or []), 3), ov is not None))


class JudgeNormalize:
    def pre(self, ctx, args, kwargs):
        return snapshot(args[0] if args else kwargs["m"])

    def __call__(self, ctx, args, kwargs, result, exc, pre):
        m = args[0] if args else kwargs["m"]
        ov = kwargs.get("override_bpm", args[1] if len(args) > 1 else None)
        frozen(ctx, "sv_normalize", pre, m, "m")
        if "svs" not in m.objs:
            return ctx.ood("sv_normalize", "game_without_svs")
        why = c19_domain(m)
        if why:
            return ctx.ood("sv_normalize", why)
        if ov is not None and not (ov > 0):
            return ctx.ood("sv_normalize", "non_positive_override")
        pts = tempo_points(m)
        feat = dict(override=ov is not None, tempo_sorted=pts == sorted(pts))
        wit = dict(tempo=pts[:40], override=ov)
        if exc is not None:
            return ctx.violate("C19", "sv_normalize", "raises", f"sv_normalize raised {type(exc).__name__}: {exc}", dict(wit, tb=core.short_tb(exc)), feat)
        if type(result) is not type(m.svs):
            return ctx.violate("C19", "sv_normalize", "class", f"result is {type(result).__name__}, chart's SV list is {type(m.svs).__name__}", wit, feat)
        probs = schema_problems(result)
        if probs:
            return ctx.violate("C19", "sv_normalize", "schema", f"result list: {probs}", wit, feat)
        got = sorted((float(o), float(x)) for o, x in rows(result, ["offset", "multiplier"]))
        wit["result"] = got[:40]
        refs = [float(ov)] if ov is not None else sorted(dominant_candidates(m)[0])
        ok = False
        for ref in refs:
            want = sorted((o, ref / b) for o, b in pts)
            if len(want) == len(got) and all(a[0] == b[0] and feq(a[1], b[1], 1e-12, 0) for a, b in zip(want, got)):
                ok = True
                break
        if not ok:
            return ctx.violate("C19", "sv_normalize", "value", f"result {got[:6]}, expected {sorted((o, refs[0] / b) for o, b in pts)[:6]} (reference {refs})", wit, feat)
        ctx.held("sv_normalize", "value")


# ---------------------------------------------------------------------------
# C18 hitsound_copy

CLAP, FINISH, WHISTLE = 2, 4, 8
SOUNDS = (("clap", CLAP), ("finish", FINISH), ("whistle", WHISTLE))
NOTE_COLS = ["offset", "column", "hitsound_set", "hitsound_file", "volume"]


def osu_notes(m):
    out = []
    for o, c, hs, f, v in rows(m.hits, NOTE_COLS):
        out.append(dict(t=float(o), col=c, len=None, hs=int(hs), file=f if isinstance(f, str) else "", vol=v))
    for o, c, hs, f, v, ln in rows(m.holds, NOTE_COLS + ["length"]):
        out.append(dict(t=float(o), col=c, len=float(ln), hs=int(hs), file=f if isinstance(f, str) else "", vol=v))
    return out


class JudgeHitsoundCopy:
    def pre(self, ctx, args, kwargs):
        src = args[0] if args else kwargs["osu_src"]
        tgt = args[1] if len(args) > 1 else kwargs["osu_tgt"]
        return dict(src=snapshot(src), tgt=snapshot(tgt))

    def __call__(self, ctx, args, kwargs, result, exc, pre):
        src = args[0] if args else kwargs["osu_src"]
        tgt = args[1] if len(args) > 1 else kwargs["osu_tgt"]
        if pre:
            frozen(ctx, "hitsound_copy", pre["src"], src, "osu_src", also="C18")
            frozen(ctx, "hitsound_copy", pre["tgt"], tgt, "osu_tgt", also="C18")
        try:
            s_notes, t_notes = osu_notes(src), osu_notes(tgt)
        except Exception:
            return ctx.ood("hitsound_copy", "inputs_not_osu_charts")
        if any(";" in n["file"] for n in s_notes):
            return ctx.ood("hitsound_copy", "file_name_contains_join_character")
        if any(math.isnan(n["t"]) for n in s_notes + t_notes):
            return ctx.ood("hitsound_copy", "nan_offset")
        tgt_clean = all(n["hs"] & 14 == 0 and n["file"] == "" for n in t_notes)
        per_t_files = Counter()
        for n in s_notes:
            if n["file"]:
                per_t_files[n["t"]] += 1
        slots = Counter(n["t"] for n in t_notes)
        feat = dict(target_carries_own_sounds=not tgt_clean,
                    overflow_named_samples=min(3, max([per_t_files[t] - slots.get(t, 0) for t in per_t_files] + [0])))
        wit = dict(src=[(n["t"], n["hs"], n["file"], n["vol"]) for n in s_notes if n["hs"] or n["file"]][:60],
                   tgt=[(n["t"], n["col"], n["len"], n["hs"], n["file"]) for n in t_notes][:60])
        if exc is not None:
            return ctx.violate("C18", "hitsound_copy", "raises", f"hitsound_copy raised {type(exc).__name__}: {exc}", dict(wit, tb=core.short_tb(exc)), feat)
        r = result
        try:
            r_notes = osu_notes(r)
            r_samples = [(float(o), f) for o, f in rows(r.samples, ["offset", "sample_file"])]
        except Exception as e:
            return ctx.violate("C18", "hitsound_copy", "result_shape", f"result is not a readable osu chart: {type(e).__name__}: {e}", wit, feat)
        wit["result"] = [(n["t"], n["col"], n["len"], n["hs"], n["file"]) for n in r_notes][:60]
        wit["result_samples"] = r_samples[:30]
        # (1) notes
        key = lambda n: (n["t"], n["col"], n["len"])
        if Counter(map(key, r_notes)) != Counter(map(key, t_notes)):
            d = Counter(map(key, r_notes))
            d.subtract(Counter(map(key, t_notes)))
            return ctx.violate("C18", "hitsound_copy", "notes", f"result notes differ from the target's: {[(k, v) for k, v in d.items() if v][:5]}", wit, feat)
        times = sorted({n["t"] for n in s_notes} | {n["t"] for n in t_notes} | {t for t, _ in r_samples})
        bad = None
        for t in times:
            sn = [n for n in s_notes if n["t"] == t]
            rn = [n for n in r_notes if n["t"] == t]
            rs = [f for tt, f in r_samples if tt == t]
            # (2) defaults bounded by the source
            for name, bit in SOUNDS:
                cs = sum(1 for n in sn if n["hs"] & bit)
                cr = sum(1 for n in rn if n["hs"] & bit)
                if cr > cs:
                    bad = ("more_than_source", f"at {t}: {cr} {name}(s) on result notes, source has {cs}")
                    break
            if bad:
                break
            # (4)/(5) named samples conserved
            src_files = Counter(n["file"] for n in sn if n["file"])
            res_files = Counter(n["file"] for n in rn if n["file"]) + Counter(f for f in rs if f)
            if src_files != res_files:
                lost = src_files - res_files
                extra = res_files - src_files
                if extra:
                    bad = ("unexplained_sample", f"at {t}: result carries named sample(s) {dict(extra)} not in the source at that time")
                else:
                    bad = ("named_sample_lost", f"at {t}: source named sample(s) {dict(lost)} neither on a result note nor an event sample")
                break
            # (5b) a copied sound keeps the volume it had in the source
            def vol_ok(rv, sv):
                return rv == sv or (rv == 0 and sv <= 0)
            for n in rn:
                for name, bit in SOUNDS:
                    if n["hs"] & bit and not any(x["hs"] & bit and vol_ok(n["vol"], x["vol"]) for x in sn):
                        bad = ("volume", f"at {t}: result note carries a {name} at volume {n['vol']}, the source has it at {[x['vol'] for x in sn if x['hs'] & bit]}")
                if n["file"] and not any(x["file"] == n["file"] and vol_ok(n["vol"], x["vol"]) for x in sn):
                    bad = ("volume", f"at {t}: result note carries {n['file']} at volume {n['vol']}, the source has it at {[x['vol'] for x in sn if x['file'] == n['file']]}")
            if bad:
                break
            # (3) capacity: something dropped from the notes => every note at t is used
            dropped_default = any(sum(1 for n in sn if n["hs"] & bit) > sum(1 for n in rn if n["hs"] & bit) for _, bit in SOUNDS)
            dropped_file = bool(Counter(n["file"] for n in sn if n["file"]) - Counter(n["file"] for n in rn if n["file"]))
            if (dropped_default or dropped_file) and any(n["hs"] & 14 == 0 and n["file"] == "" for n in rn):
                bad = ("capacity", f"at {t}: a source sound was left off the notes although a target note at that time is free")
                break
        if bad:
            return ctx.violate("C18", "hitsound_copy", bad[0], bad[1], wit, feat)
        ctx.held("hitsound_copy", "clauses")
        ctx.state("hitsound.case", (feat["overflow_named_samples"] > 0, not tgt_clean, len(t_notes) > 0,
                                    any(n["len"] is not None for n in t_notes), any(n["len"] is not None for n in s_notes)))


# ---------------------------------------------------------------------------

def _mod(name):
    import importlib
    import sys

    importlib.import_module(name)
    return sys.modules[name]  # the package attribute of the same name is the function


def install(ctx, full_ln=False, c19=False, hitsound=False):
    if full_ln:
        patch_function(_mod("reamber.algorithms.generate.full_ln"), "full_ln", monitor("full_ln", JudgeFullLn()))
    if c19:
        patch_function(_mod("reamber.algorithms.utils.dominant_bpm"), "dominant_bpm", monitor("dominant_bpm", JudgeDominant()))
        patch_function(_mod("reamber.algorithms.analysis.scroll_speed"), "scroll_speed", monitor("scroll_speed", JudgeScroll()))
        patch_function(_mod("reamber.algorithms.generate.sv_normalize"), "sv_normalize", monitor("sv_normalize", JudgeNormalize()))
    if hitsound:
        patch_function(_mod("reamber.algorithms.osu.hitsound_copy"), "hitsound_copy", monitor("hitsound_copy", JudgeHitsoundCopy()))
