"""R-monitors on BMSMap.read (C04) and BMSMap.write (C05)."""
from __future__ import annotations

import math
from fractions import Fraction as F

from rv import core
from rv.install import monitor, patch_method
from rv.ref import bms as rbms
from rv.ref import timing as rt
from rv.snapshot import rows

MS_ABS, MS_REL = 1e-6, 1e-9


def close(a, b):
    return rt.close(a, b, MS_ABS, MS_REL)


def lanes_of(config):
    return {ch: col for ch, col in config.items() if isinstance(col, int)}


def layout_name(config):
    lanes = lanes_of(config)
    for n, l in rbms.LAYOUTS.items():
        if l == lanes:
            return n
    return "custom"


def as_bytes(x):
    if isinstance(x, bytes):
        return x
    if isinstance(x, str):
        return x.encode("shift_jis", errors="replace")
    return bytes(str(x), "ascii")


def mem_hits(bms):
    return sorted((int(c), float(o), as_bytes(s)) for o, c, s in rows(bms.hits, ["offset", "column", "sample"]))


def mem_holds(bms):
    return sorted((int(c), float(o), float(ln), as_bytes(s)) for o, c, ln, s in rows(bms.holds, ["offset", "column", "length", "sample"]))


# ---------------------------------------------------------------------------
# C04

def judge_read(ctx, args, kwargs, result, exc, pre):
    from reamber.bms.BMSChannel import BMSChannel

    lines = args[0] if args else kwargs["lines"]
    config = args[1] if len(args) > 1 else kwargs.get("note_channel_config", BMSChannel.BME)
    lanes = lanes_of(config)
    try:
        den = rbms.parse_bms(lines, lanes)
    except Exception as e:
        ctx.counters["bms.read|reference_failed"] += 1
        return ctx.ood("bms.read", "reference_could_not_parse")
    if den["time_sig_lines"]:
        return ctx.ood("bms.read", "channel_02_time_signature")
    if den["problems"]:
        return ctx.ood("bms.read", "malformed:" + den["problems"][0].split(" ")[0])
    if den["lane_collisions"]:
        return ctx.ood("bms.read", "two_objects_on_one_lane_position")
    if any(v <= 0 for _, v in den["timeline"].ch):
        return ctx.ood("bms.read", "non_positive_bpm")
    tl = den["timeline"]
    fine = any((b % 1).denominator > 96 for b in den["tempo_beats"])
    from rv.monitors.timing import reseat_features

    rf = reseat_features([(int(b // 4), b % 4, v, 4) for b, v in tl.ch]) if len(tl.ch) > 1 else dict(near_line_remainder=False)
    # each tempo change finer than the snapper can be displaced by <= 1/192 beat
    n_fine = sum(1 for b in den["tempo_beats"] if (b % 1).denominator > 96)
    step_ms = n_fine * (60000.0 / float(min(v for _, v in tl.ch))) / 192 + 1e-6
    feat = dict(layout=layout_name(config), n_tempo=len(tl.ch), tempo_beat_denominator_gt_96=fine,
                reseat_near_line_remainder=rf["near_line_remainder"], n_holds=len(den["holds"]))
    wit = dict(lines=[ln if isinstance(ln, str) else repr(ln) for ln in lines][:400], layout=feat["layout"])
    if exc is not None:
        return ctx.violate("C04", "bms.read", "raises", f"BMSMap.read raised {type(exc).__name__}: {exc}",
                           dict(wit, tb=core.short_tb(exc)), feat)
    bms = result
    want_hits = sorted((c, float(tl.ms_of_beat(b)), s) for c, b, s in den["hits"])
    want_holds = sorted((c, float(tl.ms_of_beat(b0)), float(tl.ms_of_beat(b1) - tl.ms_of_beat(b0)), s) for c, b0, b1, s in den["holds"])
    got_hits, got_holds = mem_hits(bms), mem_holds(bms)
    if len(want_hits) != len(got_hits) or len(want_holds) != len(got_holds):
        return ctx.violate("C04", "bms.read", "objects",
                           f"file denotes {len(want_hits)} hits / {len(want_holds)} holds, read gave {len(got_hits)} / {len(got_holds)}", wit, feat)
    # order-insensitive matching per column
    def by_col(lst):
        d = {}
        for x in lst:
            d.setdefault(x[0], []).append(x[1:])
        return d

    for name, want, got in (("hit", want_hits, got_hits), ("hold", want_holds, got_holds)):
        wc, gc = by_col(want), by_col(got)
        if {k: len(v) for k, v in wc.items()} != {k: len(v) for k, v in gc.items()}:
            return ctx.violate("C04", "bms.read", "lane",
                               f"{name}s per column: file {({k: len(v) for k, v in wc.items()})}, read {({k: len(v) for k, v in gc.items()})}", wit, feat)
        for col in wc:
            for w, g in zip(wc[col], gc[col]):
                if not close(w[0], g[0]):
                    return ctx.violate("C04", "bms.read", "time", f"{name} on column {col}: file says {w[0]} ms, read gave {g[0]} ms",
                                       wit, dict(feat, error_within_snapper_step=abs(w[0] - g[0]) <= step_ms))
                if name == "hold" and not close(w[0] + w[1], g[0] + g[1]):
                    err = abs(w[0] + w[1] - g[0] - g[1])
                    # a wrong head/tail pairing moves the end by at least a grid step; a sub-ms error is a timing error
                    return ctx.violate("C04", "bms.read", "ln_pairing" if err > step_ms else "time",
                                       f"hold on column {col} at {w[0]} ms: file says it ends at {w[0] + w[1]} ms, read gave {g[0] + g[1]} ms",
                                       wit, dict(feat, error_within_snapper_step=err <= step_ms))
                if w[-1] != g[-1]:
                    return ctx.violate("C04", "bms.read", "sample", f"{name} on column {col} at {w[0]} ms: file sample {w[-1]!r}, read {g[-1]!r}", wit, feat)
    # headers
    h = den["hdr"]
    checks = [("TITLE", bms.title), ("ARTIST", bms.artist), ("PLAYLEVEL", bms.version)]
    for k, got in checks:
        if k.encode() in h and as_bytes(got) != h[k.encode()]:
            return ctx.violate("C04", "bms.read", "header", f"#{k}: file {h[k.encode()]!r}, read {got!r}", wit, feat)
    if {k: float(v) for k, v in bms.exbpms.items()} != {k: float(v) for k, v in den["exbpm"].items()}:
        return ctx.violate("C04", "bms.read", "header", f"extended tempos: file {den['exbpm']}, read {bms.exbpms}", wit, feat)
    if {k: as_bytes(v) for k, v in bms.samples.items()} != den["wav"]:
        return ctx.violate("C04", "bms.read", "header", "#WAV table differs", wit, feat)
    # initial tempo: the tempo list is reseated onto measure lines, so its first
    # point keeps the file's initial bpm exactly when at least one whole measure
    # passes before the next change (C11); otherwise the first measure is
    # legitimately re-expressed and only counted here
    first_bpm = sorted(rows(bms.bpms, ["offset", "bpm"]))[0][1] if len(bms.bpms) else None
    if len(tl.ch) == 1 or tl.ch[1][0] >= 4:
        if first_bpm is None or not rt.close(first_bpm, tl.ch[0][1], 0, 1e-9):
            return ctx.violate("C04", "bms.read", "header", f"initial tempo: file {float(tl.ch[0][1])}, read {first_bpm}", wit, feat)
    else:
        ctx.seen("bms.read", "initial_tempo_reseated_not_judged")
    for k, v in h.items():
        if k in (b"BPM",) or (k.upper().startswith(b"BPM") and len(k) == 5) or k.upper().startswith(b"WAV"):
            continue
        if as_bytes(bms.misc.get(k, b"\x00missing")) != v and k not in (b"TITLE", b"ARTIST", b"PLAYLEVEL", b"LNOBJ"):
            return ctx.violate("C04", "bms.read", "header", f"header #{k.decode(errors='replace')} = {v!r} not retained (misc has {bms.misc.get(k)!r})", wit, feat)
    if den["lnobj"] is not None and as_bytes(bms.ln_end_channel) != den["lnobj"]:
        return ctx.violate("C04", "bms.read", "header", f"#LNOBJ {den['lnobj']!r} read as {bms.ln_end_channel!r}", wit, feat)
    ctx.held("bms.read", "denotation")
    ctx.state("bms.read.shape", (feat["layout"], min(len(tl.ch), 4), len(want_holds) > 0))


# ---------------------------------------------------------------------------
# C05

def mem_points(bms):
    return sorted((float(o), float(b), float(m)) for o, b, m in rows(bms.bpms, ["offset", "bpm", "metronome"]))


def write_domain(bms, lanes):
    pts = mem_points(bms)
    if not pts:
        return "no_tempo", None
    if any(m != 4 for _, _, m in pts):
        return "metronome_not_4", None
    if any(not (v > 0) or not math.isfinite(v) for _, v, _ in pts):
        return "non_positive_bpm", None
    if pts[0][0] != 0:
        return "first_tempo_point_not_at_0ms", None
    if any(a[0] == b[0] for a, b in zip(pts, pts[1:])):
        return "coincident_tempo_points", None
    if len(pts) > 1295:
        return "more_than_1295_tempo_points", None
    beats = [F(0)]
    for (t0, v0, _), (t1, v1, _) in zip(pts, pts[1:]):
        beats.append(beats[-1] + (F(t1) - F(t0)) * F(v0) / 60000)
    for b in beats:
        m = b / 4
        if abs(m - round(m)) > F(1, 10**7):
            return "tempo_point_off_measure_line", None
    beats = [F(round(b / 4) * 4) for b in beats]
    if beats[-1] >= 4000:
        return "beyond_measure_999", None
    tl = rt.RefBeats(F(0), [(b, F(v)) for b, (t, v, _) in zip(beats, pts)])
    tl.ms = [F(t) for t, _, _ in pts]
    cols = set(lanes.values())
    cells = set()
    objs = []
    for c, o, s in mem_hits(bms):
        objs.append(("hit", c, o, None, s))
    for c, o, ln, s in mem_holds(bms):
        if ln <= 0:
            return "non_positive_hold_length", None
        objs.append(("hold", c, o, o + ln, s))
    out = []
    for kind, c, t0, t1, s in objs:
        if c not in cols:
            return "column_not_in_layout", None
        res = []
        for t in (t0, t1):
            if t is None:
                res.append(None)
                continue
            if t < 0 or not math.isfinite(t):
                return "negative_or_non_finite_time", None
            b = tl.beat_of_ms(t)
            if b >= 4000:
                return "beyond_measure_999", None
            fr = b - (b // 1)
            cands, dist = rt.nearest_farey(fr, 96)
            g = (b // 1) + min(cands)
            if (c, g) in cells:
                return "two_objects_in_one_lane_slot", None
            cells.add((c, g))
            res.append((b, dist <= F(1, 10**7), g))
        out.append((kind, c, s, res))
    # LNOBJ closes the time-preceding object of its lane: an object between a
    # hold's head and tail on the same lane cannot be denoted by the format
    spans = {}
    for kind, c, s, res in out:
        if kind == "hold":
            spans.setdefault(c, []).append((res[0][2], res[1][2]))
    for kind, c, s, res in out:
        for r in res:
            if r is not None and any(a < r[2] < b for a, b in spans.get(c, [])):
                return "object_inside_a_hold_of_its_lane", None
    for c, sp in spans.items():
        if any(b <= a for a, b in sp):
            return "hold_shorter_than_a_grid_step", None
    return None, (tl, beats, pts, out)


def judge_write(ctx, args, kwargs, result, exc, pre):
    from reamber.bms.BMSChannel import BMSChannel

    bms = args[0]
    config = args[1] if len(args) > 1 else kwargs.get("note_channel_config", BMSChannel.BME)
    lanes = lanes_of(config)
    try:
        why, info = write_domain(bms, lanes)
    except Exception as e:
        ctx.counters["bms.write|domain_gate_failed"] += 1
        return ctx.ood("bms.write", "domain_gate_failed:" + type(e).__name__)
    if why:
        return ctx.ood("bms.write", why)
    tl, beats, pts, objs = info
    exact_bpm = all(round(v, 3) == v for _, v, _ in pts)
    feat = dict(layout=layout_name(config), many_tempo=len(pts) > 5, bpm_3_decimals=exact_bpm,
                off_grid=any(not r[1] for *_, res in objs for r in res if r))
    wit = dict(layout=feat["layout"], tempo=pts[:50], objects=[(k, c, [None if r is None else float(r[0]) for r in res]) for k, c, s, res in objs][:80])
    if exc is not None:
        return ctx.violate("C05", "bms.write", "raises", f"BMSMap.write raised {type(exc).__name__}: {exc}",
                           dict(wit, tb=core.short_tb(exc)), feat)
    data = result
    wit["written"] = data[:3000].decode("shift_jis", errors="replace")
    syn = rbms.syntax_problems(data)
    if syn:
        return ctx.violate("C05", "bms.write", "syntax", f"invalid line(s): {syn[:3]}", wit, feat)
    try:
        den = rbms.parse_bms(data, lanes)
    except Exception as e:
        return ctx.violate("C05", "bms.write", "syntax", f"written bytes cannot be parsed: {type(e).__name__}: {e}", wit, feat)
    if den["problems"] or den["time_sig_lines"]:
        return ctx.violate("C05", "bms.write", "syntax", f"written file is malformed: {den['problems'][:3]} time_sig_lines={den['time_sig_lines']}", wit, feat)
    n_hits = sum(1 for k, *_ in objs if k == "hit")
    n_holds = sum(1 for k, *_ in objs if k == "hold")
    if len(den["hits"]) != n_hits or len(den["holds"]) != n_holds:
        return ctx.violate("C05", "bms.write", "objects",
                           f"memory has {n_hits} hits / {n_holds} holds, the file denotes {len(den['hits'])} / {len(den['holds'])} (objects merged, dropped or mis-paired)", wit, feat)
    ftl = den["timeline"]
    # tempo timeline: same positions, bpm to the 3 decimals the format line carries
    fch = ftl.ch
    if len(fch) != len(pts):
        return ctx.violate("C05", "bms.write", "tempo", f"{len(pts)} tempo points in memory, {len(fch)} in the file", wit, feat)
    for (fb, fv), b, (t, v, _) in zip(fch, beats, pts):
        if fb != b or abs(float(fv) - v) > 5e-4 + 1e-12:
            return ctx.violate("C05", "bms.write", "tempo",
                               f"tempo point at beat {float(b)} ({v} bpm) written as beat {float(fb)} ({float(fv)} bpm)", wit, feat)
    known = {as_bytes(v) for v in bms.samples.values()}

    def group(lst):
        d = {}
        for x in lst:
            d.setdefault(x[0], []).append(x[1:])
        for v in d.values():
            v.sort(key=lambda y: y[0])
        return d

    fh = group([(c, b, s) for c, b, s in den["hits"]])
    fl = group([(c, b0, b1, s) for c, b0, b1, s in den["holds"]])
    mh = group([(c, res[0][0], res[0], s) for k, c, s, res in objs if k == "hit"])
    ml = group([(c, res[0][0], res[0], res[1], s) for k, c, s, res in objs if k == "hold"])
    if {k: len(v) for k, v in fh.items()} != {k: len(v) for k, v in mh.items()} or {k: len(v) for k, v in fl.items()} != {k: len(v) for k, v in ml.items()}:
        return ctx.violate("C05", "bms.write", "lane", "objects per column differ between memory and file", wit, feat)
    n_on = n_off = 0

    def pos_ok(r, fb):
        nonlocal n_on, n_off
        b, on, g = r
        if on:
            n_on += 1
            return fb == g
        n_off += 1
        return abs(fb - b) <= F(1, 192) + F(1, 10**7)

    for col in mh:
        for (b, r, s), (fb, fs) in zip(mh[col], fh[col]):
            if not pos_ok(r, fb):
                return ctx.violate("C05", "bms.write", "time_on_grid" if r[1] else "time_off_grid",
                                   f"hit on column {col} at beat {float(b)} written at beat {float(fb)}", wit, feat)
            # same grid position in both timelines (b itself may sit up to 1e-7 beat off its grid point)
            if exact_bpm and r[1] and not close(ftl.ms_of_beat(fb), tl.ms_of_beat(r[2])):
                return ctx.violate("C05", "bms.write", "time_on_grid",
                                   f"hit on column {col}: memory {float(tl.ms_of_beat(b))} ms, file {float(ftl.ms_of_beat(fb))} ms", wit, feat)
            if s in known and fs != s:
                return ctx.violate("C05", "bms.write", "sample", f"hit on column {col} at beat {float(b)}: sample {s!r} written as {fs!r}", wit, feat)
    for col in ml:
        for (b, r0, r1, s), (fb0, fb1, fs) in zip(ml[col], fl[col]):
            if not pos_ok(r0, fb0) or not pos_ok(r1, fb1):
                return ctx.violate("C05", "bms.write", "time_on_grid" if (r0[1] and r1[1]) else "time_off_grid",
                                   f"hold on column {col} beats {float(r0[0])}..{float(r1[0])} written as {float(fb0)}..{float(fb1)}", wit, feat)
            if s in known and fs != s:
                return ctx.violate("C05", "bms.write", "sample", f"hold on column {col} at beat {float(b)}: sample {s!r} written as {fs!r}", wit, feat)
    if n_on:
        ctx.held("bms.write", "time_on_grid", n_on)
    if n_off:
        ctx.held("bms.write", "time_off_grid", n_off)
    ctx.held("bms.write", "tempo", len(pts))
    ctx.state("bms.write.shape", (feat["layout"], min(len(pts), 4), n_holds > 0, feat["off_grid"]))


def install(ctx, read=True, write=True):
    from reamber.bms.BMSMap import BMSMap

    if read:
        patch_method(BMSMap, "read", monitor("bms.read", judge_read))
    if write:
        patch_method(BMSMap, "write", monitor("bms.write", judge_write))
