"""C13: pre/post-state contract on Map.rate / MapSet.rate / OsuMap.rate / SMMapSet.rate."""
from __future__ import annotations

import dataclasses
import math

from rv import core
from rv.install import monitor, patch_method
from rv.monitors.algos import frozen, game_of
from rv.monitors.lists import rowdicts
from rv.snapshot import is_timed_list, snapshot

REL = 1e-12
TIME_COLS = ("offset", "length")
# file-level time fields that must scale with the chart
META_TIME = {"osu": ["preview_time"], "sm": ["sample_start", "sample_length", "offset"]}


def rel(a, b, r=REL):
    if a == "NaN" or b == "NaN":
        return a == b
    a, b = float(a), float(b)
    return a == b or abs(a - b) <= r * max(abs(a), abs(b)) or (math.isnan(a) and math.isnan(b))


def charts(x):
    return list(x.maps) if hasattr(x, "maps") else [x]


def meta_of(x):
    out = {}
    if dataclasses.is_dataclass(x):
        for f in dataclasses.fields(x):
            if f.name in ("objs", "maps"):
                continue
            v = getattr(x, f.name, None)
            out[f.name] = rowdicts(v) if is_timed_list(v) else v
    return out


def state_of(x):
    return dict(meta=meta_of(x), charts=[dict(meta=meta_of(m) if m is not x else {}, lists={k: (type(v).__name__, [str(c) for c in v.df.columns], rowdicts(v)) for k, v in m.objs.items()}) for m in charts(x)])


def compare_rated(old, new, r, game, tol=REL):
    """None or (clause, message)."""
    if len(old["charts"]) != len(new["charts"]):
        return "structure", f"{len(old['charts'])} charts -> {len(new['charts'])}"
    for ci, (oc, nc) in enumerate(zip(old["charts"], new["charts"])):
        if list(oc["lists"]) != list(nc["lists"]):
            return "structure", f"chart {ci}: lists {list(oc['lists'])} -> {list(nc['lists'])}"
        for name in oc["lists"]:
            (ocls, ocols, orows), (ncls, ncols, nrows) = oc["lists"][name], nc["lists"][name]
            if ocls != ncls or set(ocols) != set(ncols):
                return "structure", f"chart {ci} {name}: {ocls}{ocols} -> {ncls}{ncols}"
            if len(orows) != len(nrows):
                return "structure", f"chart {ci} {name}: {len(orows)} rows -> {len(nrows)}"
            for k, (a, b) in enumerate(zip(orows, nrows)):
                for c in a:
                    if c in TIME_COLS:
                        ok = rel(b[c], float(a[c]) / r, tol) if a[c] != "NaN" else b[c] == "NaN"
                        what = f"expected {a[c]} / {r}"
                    elif c == "bpm":
                        ok = rel(b[c], float(a[c]) * r, tol) if a[c] != "NaN" else b[c] == "NaN"
                        what = f"expected {a[c]} * {r}"
                    else:
                        ok = (a[c] == b[c]) or rel(a[c], b[c], 0) if not isinstance(a[c], str) or a[c] == "NaN" else a[c] == b[c]
                        what = f"expected unchanged {a[c]!r}"
                    if not ok:
                        return ("time_scaled" if c in TIME_COLS else "bpm_scaled" if c == "bpm" else "other_field"), f"chart {ci} {name} row {k} {c}: {what}, got {b[c]!r}"
        bad = compare_meta(oc["meta"], nc["meta"], r, game, f"chart {ci} ", tol)
        if bad:
            return bad
    return compare_meta(old["meta"], new["meta"], r, game, "", tol)


def compare_meta(om, nm, r, game, where, tol=REL):
    for k, a in om.items():
        b = nm.get(k)
        if k in META_TIME.get(game, []):
            if isinstance(a, (int, float)) and not isinstance(a, bool):
                if not rel(b, a / r, max(tol, 1e-12)):
                    return "file_time_field", f"{where}{k}: expected {a} / {r} = {a / r}, got {b!r}"
            continue
        if k == "samples" and isinstance(a, list):
            if len(a) != len(b) or any(not rel(y["offset"], x["offset"] / r, tol) or {kk: v for kk, v in x.items() if kk != "offset"} != {kk: v for kk, v in y.items() if kk != "offset"} for x, y in zip(a, b)):
                return "file_time_field", f"{where}sample events not scaled by 1/{r}: {a[:2]} -> {b[:2]}"
            continue
        same = (a == b) if not isinstance(a, float) else rel(a, b, 0)
        try:
            same = bool(same)
        except Exception:
            same = repr(a) == repr(b)
        if not same:
            return "other_field", f"{where}{k}: {a!r} -> {b!r}"
    return None


class JudgeRate:
    def pre(self, ctx, args, kwargs):
        ctx.rate_depth = getattr(ctx, "rate_depth", 0) + 1
        if ctx.rate_depth > 1:
            return dict(nested=True)
        return dict(nested=False, state=state_of(args[0]), snap=snapshot(args[0]))

    def __call__(self, ctx, args, kwargs, result, exc, pre):
        ctx.rate_depth = max(0, getattr(ctx, "rate_depth", 1) - 1)
        if pre is None or pre.get("nested"):
            return
        x = args[0]
        by = kwargs.get("by", args[1] if len(args) > 1 else None)
        mon = "rate"
        frozen(ctx, "rate", pre["snap"], x, "self")
        if not isinstance(by, (int, float)) or isinstance(by, bool) or not (by > 0) or not math.isfinite(by):
            return ctx.ood(mon, "rate_not_positive")
        game = game_of(charts(x)[0]) if charts(x) else game_of(x)
        if any(v == "NaN" for c in pre["state"]["charts"] for (_, _, rows_) in c["lists"].values() for r_ in rows_ for k, v in r_.items() if k in TIME_COLS + ("bpm",)):
            return ctx.ood(mon, "missing_values_in_source")
        feat = dict(game=game, mapset=hasattr(x, "maps"))
        wit = dict(by=by, cls=type(x).__name__)
        if exc is not None:
            if not charts(x) or all(sum(len(v) for v in m.objs.values()) == 0 for m in charts(x)):
                return ctx.ood(mon, "chart_without_any_row")
            return ctx.violate("C13", mon, "raises", f"{type(x).__name__}.rate({by}) raised {type(exc).__name__}: {exc}", dict(wit, tb=core.short_tb(exc)), feat)
        if type(result) is not type(x):
            return ctx.violate("C13", mon, "structure", f"rate returned {type(result).__name__}", wit, feat)
        bad = compare_rated(pre["state"], state_of(result), by, game)
        if bad:
            return ctx.violate("C13", mon, bad[0], bad[1], wit, dict(feat, field=bad[1].split(":")[0].split()[-1] if bad[0] == "file_time_field" else None))
        ctx.held(mon, "contract")
        ctx.state("rate.case", (type(x).__name__, by == 1))


def install(ctx):
    from reamber.base.Map import Map
    from reamber.base.MapSet import MapSet
    from reamber.osu.OsuMap import OsuMap
    from reamber.sm.SMMapSet import SMMapSet

    j = JudgeRate()
    for cls in (Map, MapSet, OsuMap, SMMapSet):
        if "rate" in cls.__dict__:
            patch_method(cls, "rate", monitor("rate", j))
