"""R-monitors on SMMapSet.read (C02) and SMMapSet.write (C03)."""
from __future__ import annotations

import math
from fractions import Fraction as F

from rv import core
from rv.install import monitor, patch_method
from rv.ref import sm as rsm
from rv.ref import timing as rt
from rv.snapshot import rows

MS_ABS, MS_REL = 1e-6, 1e-9
LISTS = [("hits", "hit"), ("holds", "hold"), ("rolls", "roll"), ("mines", "mine"),
         ("lifts", "lift"), ("fakes", "fake"), ("keysounds", "keysound")]


def close(a, b):
    return rt.close(a, b, MS_ABS, MS_REL)


def mem_objects(sm):
    """[(kind, col, ms, length|None)] of an in-memory SMMap."""
    out = []
    for attr, kind in LISTS:
        tl = getattr(sm, attr)
        if kind in ("hold", "roll"):
            for o, c, ln in rows(tl, ["offset", "column", "length"]):
                out.append((kind, int(c), float(o), float(ln)))
        else:
            for o, c in rows(tl, ["offset", "column"]):
                out.append((kind, int(c), float(o), None))
    return out


def compare_objects(want, got, tol_fn):
    """want/got: [(kind, col, ms, length|None)].  Multiset comparison per
    (kind, col) in time order.  Returns None or (clause, message)."""
    def group(objs):
        g = {}
        for k, c, t, ln in objs:
            g.setdefault((k, c), []).append((float(t), None if ln is None else float(ln)))
        for v in g.values():
            v.sort(key=lambda x: (x[0], x[1] if x[1] is not None else 0))
        return g

    gw, gg = group(want), group(got)
    if {k: len(v) for k, v in gw.items()} != {k: len(v) for k, v in gg.items()}:
        cw = {f"{k[0]}@{k[1]}": len(v) for k, v in gw.items()}
        cg = {f"{k[0]}@{k[1]}": len(v) for k, v in gg.items()}
        diff = {k: (cw.get(k, 0), cg.get(k, 0)) for k in set(cw) | set(cg) if cw.get(k, 0) != cg.get(k, 0)}
        return "objects", f"object counts per kind@column differ (expected, got): {dict(list(diff.items())[:6])}"
    for key in gw:
        for (tw, lw), (tg, lg) in zip(gw[key], gg[key]):
            if abs(tw - tg) > tol_fn(tw):
                return "time", f"{key[0]} on column {key[1]}: expected at {tw} ms, got {tg} ms (tolerance {tol_fn(tw):.3g})", abs(tw - tg) / max(tol_fn(tw), 1e-12)
            if lw is not None:
                if abs((tw + lw) - (tg + lg)) > tol_fn(tw + lw):
                    return ("time", f"{key[0]} on column {key[1]} at {tw} ms: expected end {tw + lw} ms, got {tg + lg} ms (tolerance {tol_fn(tw + lw):.3g})",
                            abs((tw + lw) - (tg + lg)) / max(tol_fn(tw + lw), 1e-12))
    return None


# ---------------------------------------------------------------------------
# C02

def on_48_grid(beat: F, text_places=None):
    if (beat * 48).denominator == 1:
        return True
    # a 1/48-grid beat written with 3 or 6 decimals
    near = F(round(beat * 48), 48)
    return abs(near - beat) <= F(6, 10**4)


def read_domain(text, den):
    if "\r" in text:
        return "carriage_returns"
    if den["stops"]:
        return "stops"
    if not den["bpms"]:
        return "no_bpms"
    if min(b for b, _ in den["bpms"]) != 0:
        return "first_tempo_not_at_beat_0"
    if len({b for b, _ in den["bpms"]}) != len(den["bpms"]):
        return "coincident_tempo_changes"
    if any(v <= 0 for _, v in den["bpms"]):
        return "non_positive_bpm"
    if any(not on_48_grid(b) for b, _ in den["bpms"]):
        return "tempo_beat_off_48_grid"
    if den["problems"]:
        return "malformed_file"
    if "#OFFSET" not in den["hdr"] or not den["hdr"]["#OFFSET"].strip():
        return "no_offset_tag"
    for ch in den["charts"]:
        if ch["problems"]:
            return "malformed_chart"
        if any(n % 4 for n in ch["row_counts"]):
            return "rows_not_multiple_of_4"
        if any(w > 18 for w in ch["widths"]):
            return "more_than_18_columns"
    return None


def text_features(text):
    import re

    f = {}
    body_lines = text.split("\n")
    f["trailing_comment_on_row"] = any(re.match(r"^[0-9MLFK]+\s*//", ln.strip()) for ln in body_lines)
    comments = re.findall(r"//[^\n]*", text)
    f["comment_with_colon"] = any(":" in c for c in comments)
    f["comment_with_comma_or_semicolon"] = any(("," in c or ";" in c) for c in comments)
    f["stops_tag_absent"] = "#STOPS" not in rsm.strip_comments(text).upper()
    return f


def judge_read(ctx, args, kwargs, result, exc, pre):
    text = args[0] if args else kwargs["lines"]
    if isinstance(text, list):
        text = "\n".join(text)
    try:
        den = rsm.parse_sm(text)
    except Exception as e:
        ctx.counters["sm.read|reference_failed"] += 1
        return ctx.ood("sm.read", "reference_could_not_parse")
    why = read_domain(text, den)
    if why:
        return ctx.ood("sm.read", why)
    feat = text_features(text)
    feat["n_charts"] = len(den["charts"])
    feat["n_tempo"] = len(den["bpms"])
    wit = dict(text=text if len(text) < 6000 else text[:6000] + "...")
    if exc is not None:
        return ctx.violate("C02", "sm.read", "raises", f"SMMapSet.read raised {type(exc).__name__}: {exc}",
                           dict(wit, tb=core.short_tb(exc)), feat)
    ms = result
    if len(ms.maps) != len(den["charts"]):
        return ctx.violate("C02", "sm.read", "chart_count", f"file has {len(den['charts'])} charts, read returned {len(ms.maps)}", wit, feat)
    # file header
    for tag, attr in rsm.HEADER_FIELDS:
        if tag in den["hdr"]:
            if getattr(ms, attr) != den["hdr"][tag]:
                return ctx.violate("C02", "sm.read", "file_header", f"{tag}: file says {den['hdr'][tag]!r}, read gave {getattr(ms, attr)!r}", wit, feat)
    if not close(ms.offset, den["offset_ms"]):
        return ctx.violate("C02", "sm.read", "file_header", f"#OFFSET: file says {float(den['offset_ms'])} ms, read gave {ms.offset}", wit, feat)
    for tag, attr in (("#SAMPLESTART", "sample_start"), ("#SAMPLELENGTH", "sample_length")):
        if den["hdr"].get(tag, "").strip():
            if not close(getattr(ms, attr), rsm.dec(den["hdr"][tag]) * 1000):
                return ctx.violate("C02", "sm.read", "file_header", f"{tag}: file says {den['hdr'][tag]} s, read gave {getattr(ms, attr)} ms", wit, feat)
    if "#SELECTABLE" in den["hdr"] and ms.selectable != (den["hdr"]["#SELECTABLE"].strip() == "YES"):
        return ctx.violate("C02", "sm.read", "file_header", f"#SELECTABLE {den['hdr']['#SELECTABLE']!r} read as {ms.selectable}", wit, feat)
    for ci, (ch, sm) in enumerate(zip(den["charts"], ms.maps)):
        want_hdr = (ch["type"], ch["desc"], ch["diff"], int(ch["meter"]), [float(x) for x in ch["radar"].split(",")])
        got_hdr = (sm.chart_type, sm.description, sm.difficulty, sm.difficulty_val, [float(x) for x in sm.groove_radar])
        if want_hdr != got_hdr:
            return ctx.violate("C02", "sm.read", "chart_header", f"chart {ci}: file says {want_hdr}, read gave {got_hdr}", wit, feat)
    # timeline readings: the text's decimal value of each tempo beat, and — when a
    # beat is a 1/48-grid position written with a finite number of decimals
    # (37.333) — the grid position StepMania itself quantises it to.  Either
    # reading is accepted, consistently for the whole file.
    readings = [("text_value", den)]
    if any((b * 48).denominator != 1 for b, _ in den["bpms"]):
        alt = dict(den)
        alt["bpms"] = [(F(round(b * 48), 48), v) for b, v in den["bpms"]]
        readings.append(("quantised_1_48", alt))
    # In that class the readings differ by at most sum|text - grid| beats at the
    # slowest tempo; a reader may also mix them (time of the change from the text
    # value, position from the grid), so that spread is the tolerance there.
    spread = float(sum(abs(b - F(round(b * 48), 48)) for b, _ in den["bpms"]) * 60000 / min(v for _, v in den["bpms"]))
    if spread:
        ctx.seen("sm.read", "inexact_tempo_beats_files")
    failures = []
    for rname, d in readings:
        tl = rsm.timeline(d)
        pts = tl.points()
        fail = None
        for ci, (ch, sm) in enumerate(zip(d["charts"], ms.maps)):
            want = rsm.chart_objects_ms(d, ch)
            got = mem_objects(sm)
            bad = compare_objects(want, got, lambda t: MS_ABS + MS_REL * abs(t) + spread)
            if bad:
                fail = (bad[0], f"chart {ci}: {bad[1]}")
                break
            got_pts = [float(o) for (o,) in rows(sm.bpms, ["offset"])]
            for t, v, b in pts:
                if not any(abs(float(t) - g) <= MS_ABS + MS_REL * abs(g) + spread for g in got_pts):
                    fail = ("tempo_point_at_change",
                            f"chart {ci}: file tempo change at beat {float(b)} = {float(t)} ms has no tempo point; list has {got_pts[:8]}")
                    break
            if fail:
                break
        if fail is None:
            ctx.seen("sm.read", "reading." + rname)
            break
        failures.append(fail)
    else:
        from rv.monitors.timing import reseat_features
        feat.update({"reseat_" + k: v for k, v in reseat_features(
            [(int(b // 4), b % 4, v, 4) for b, v in sorted(readings[-1][1]["bpms"])]).items() if k == "near_line_remainder"})
        return ctx.violate("C02", "sm.read", failures[0][0], failures[0][1] + (" (under every accepted reading of the tempo beats)" if len(readings) > 1 else ""), wit, feat)
    for ch in den["charts"]:
        ctx.state("sm.read.chart", (ch["type"], tuple(sorted(set(ch["row_counts"])))[:4], len(den["bpms"]) > 1))
        for k in {k for k, *_ in ch["objs"]}:
            ctx.state("sm.read.kind", k)
    ctx.held("sm.read", "denotation", len(den["charts"]))


# ---------------------------------------------------------------------------
# C03

def mem_tempo(sm):
    """[(ms, bpm)] sorted of an in-memory chart."""
    return sorted(((float(o), float(b)) for o, b in rows(sm.bpms, ["offset", "bpm"])), key=lambda p: p[0])


def beats_of_mem(points):
    """RefBeats of an ms-anchored tempo list [(ms, bpm)]: beat of change i by
    exact integration from the first point."""
    beats = [F(0)]
    for (t0, v0), (t1, v1) in zip(points, points[1:]):
        beats.append(beats[-1] + (F(t1) - F(t0)) * F(v0) / 60000)
    tl = rt.RefBeats(F(points[0][0]), [(b, F(v)) for b, (t, v) in zip(beats, points)])
    tl.ms = [F(t) for t, _ in points]  # anchored at the list's own times
    return tl, beats


def near_grid(x: F, divisions=rt.DEFAULT_DIVISIONS, eps=F(1, 10**6)):
    fr = x - (x // 1)
    _, d = rt.nearest_on_divisions(fr, divisions)
    return d <= eps


BAD_TEXT = (":", ";", "//", "\n", "#")


def write_domain(ms):
    if not ms.maps:
        return "no_charts", None
    t0 = None
    pts0 = None
    for sm in ms.maps:
        pts = mem_tempo(sm)
        if not pts:
            return "no_tempo", None
        if any(not (v > 0) or not math.isfinite(v) for _, v in pts):
            return "non_positive_bpm", None
        if any(a[0] == b[0] for a, b in zip(pts, pts[1:])):
            return "coincident_tempo_points", None
        if pts0 is None:
            pts0 = pts
        elif pts != pts0:
            return "charts_do_not_share_tempo_list", None
        if len(sm.stops):
            return "stops", None
        if sm.chart_type not in rsm.KEYS:
            return "unsupported_chart_type", None
    if ms.offset is None or not close(ms.offset, pts0[0][0]):
        return "offset_ne_first_tempo_point", None
    for attr in [a for _, a in rsm.HEADER_FIELDS]:
        v = getattr(ms, attr)
        if not isinstance(v, str) or any(b in v for b in BAD_TEXT) or v != v.strip():
            return "header_text_needs_escaping", None
    tl, beats = beats_of_mem(pts0)
    capped = False
    for sm in ms.maps:
        keys = rsm.KEYS[sm.chart_type]
        for v in (sm.description, sm.difficulty):
            if not isinstance(v, str) or any(b in v for b in BAD_TEXT) or v != v.strip():
                return "header_text_needs_escaping", None
        cells = set()
        for kind, col, t, ln in mem_objects(sm):
            if not (0 <= col < keys):
                return "column_outside_chart_type", None
            ends = [t] if ln is None else [t, t + ln]
            if ln is not None and ln <= 0:
                return "non_positive_hold_length", None
            for e in ends:
                if F(e) < tl.ms[0]:
                    return "object_before_first_tempo_point", None
                b = tl.beat_of_ms(e)
                if not near_grid(b):
                    return "object_off_snap_grid", None
                fr = b - (b // 1)
                g = min(rt.nearest_on_divisions(fr, rt.DEFAULT_DIVISIONS)[0]) + (b // 1)
                if (g, col) in cells:
                    return "two_objects_in_one_cell", None
                cells.add((g, col))
        # the file's own grid: a measure is written with the LCM of its positions'
        # denominators, capped at 384 rows (1/96 beat); above the cap rows are
        # truncated, so positions are only kept to the written grid and two
        # objects closer than a row may share a cell
        from math import lcm
        per_measure = {}
        for g, col in cells:
            per_measure.setdefault(int(g // 4), []).append((g, col))
        for m, lst in per_measure.items():
            L = 1
            for g, col in lst:
                L = lcm(L, ((g % 4) / 4).denominator)
            if L > 384:
                capped = True
                rowcells = set()
                for g, col in lst:
                    rc = (int(((g % 4) / 4) * 384), col)
                    if rc in rowcells:
                        return "two_objects_in_one_cell_of_the_384_row_cap", None
                    rowcells.add(rc)
    return None, (tl, beats, pts0, capped)


def judge_write(ctx, args, kwargs, result, exc, pre):
    ms = args[0]
    try:
        why, info = write_domain(ms)
    except Exception as e:
        ctx.counters["sm.write|domain_gate_failed"] += 1
        return ctx.ood("sm.write", "domain_gate_failed:" + type(e).__name__)
    if why:
        return ctx.ood("sm.write", why)
    tl, beats, pts, capped = info
    tempo_on_measure = all(near_grid(b / 4, (1,)) for b in beats)
    on_measure = tempo_on_measure and not capped  # the "exact" class
    feat = dict(tempo_on_measure_lines=tempo_on_measure, measure_over_384_rows=capped, n_tempo=len(pts), n_charts=len(ms.maps),
                selectable=bool(ms.selectable),
                chart_types=sorted({m.chart_type for m in ms.maps}))
    wit = dict(offset=ms.offset, tempo=pts, charts=[dict(type=m.chart_type, objects=mem_objects(m)[:60]) for m in ms.maps])
    if exc is not None:
        return ctx.violate("C03", "sm.write", "raises", f"SMMapSet.write raised {type(exc).__name__}: {exc}",
                           dict(wit, tb=core.short_tb(exc)), feat)
    text = result
    wit["text"] = text if len(text) < 5000 else text[:5000] + "..."
    try:
        den = rsm.parse_sm(text)
    except Exception as e:
        return ctx.violate("C03", "sm.write", "wellformed", f"written text cannot be parsed: {type(e).__name__}: {e}", wit, feat)
    probs = list(den["problems"]) + [p for ch in den["charts"] for p in ch["problems"]]
    if probs:
        return ctx.violate("C03", "sm.write", "wellformed", f"written text is not a valid .sm: {probs[:3]}", wit, feat)
    if len(den["charts"]) != len(ms.maps):
        return ctx.violate("C03", "sm.write", "chart_count", f"{len(ms.maps)} charts in memory, {len(den['charts'])} #NOTES written", wit, feat)
    short_rows = 0

    def tol_fn(t):
        if on_measure:
            return MS_ABS + MS_REL * abs(t)
        # 1/96 beat at the local tempo: the slower of the segments adjacent to t
        bl = float(tl.ms_of_beat(1) - tl.ms_of_beat(0)) if False else None
        lens = [60000.0 / float(tl.bpm_at_ms(t))]
        for ms_, v in pts:
            if abs(ms_ - t) <= 60000.0 / v / 96 * 1.01 + 1e-6:
                lens.append(60000.0 / v)
                i = pts.index((ms_, v))
                if i > 0:
                    lens.append(60000.0 / pts[i - 1][1])
        return max(lens) / 96 + MS_ABS + MS_REL * abs(t)

    for ci, (ch, sm) in enumerate(zip(den["charts"], ms.maps)):
        keys = rsm.KEYS[sm.chart_type]
        if (ch["type"], ch["desc"], ch["diff"]) != (sm.chart_type, sm.description, sm.difficulty) or int(ch["meter"]) != int(sm.difficulty_val):
            return ctx.violate("C03", "sm.write", "chart_header",
                               f"chart {ci}: memory {(sm.chart_type, sm.description, sm.difficulty, sm.difficulty_val)}, file {(ch['type'], ch['desc'], ch['diff'], ch['meter'])}", wit, feat)
        if any(w > keys for w in ch["widths"]):
            return ctx.violate("C03", "sm.write", "wellformed", f"chart {ci}: rows wider than the {keys} columns of {sm.chart_type}", wit, feat)
        if any(w < keys for w in ch["widths"]):
            short_rows += 1
        want = mem_objects(sm)
        got = rsm.chart_objects_ms(den, ch)
        bad = compare_objects(want, got, tol_fn)
        if bad:
            f2 = feat
            if bad[0] == "time" and not on_measure:
                from fractions import Fraction as _F
                f2 = dict(feat, tempo_change_finer_than_48th_beat=any((_F(b) * 48).denominator != 1 for b in beats),
                          error_within_one_and_a_half_grid_steps=bool(len(bad) > 2 and bad[2] <= 1.5))
            return ctx.violate("C03", "sm.write", bad[0] if bad[0] == "objects" else ("time_exact" if on_measure else "time_within_grid"),
                               f"chart {ci}: {bad[1]} [memory vs file]", wit, f2)
    if short_rows:
        ctx.counters["sm.write|short_rows_tolerated"] += short_rows
    ctx.held("sm.write", "time_exact" if on_measure else "time_within_grid", len(ms.maps))
    # header round trip through the real reader + second generation
    from reamber.sm.SMMapSet import SMMapSet

    try:
        r1 = SMMapSet.read(text)
    except Exception as e:
        return ctx.violate("C03", "sm.write", "read_back", f"reading the written text raised {type(e).__name__}: {e}",
                           dict(wit, tb=core.short_tb(e)), feat)
    for tag, attr in rsm.HEADER_FIELDS:
        if getattr(r1, attr) != getattr(ms, attr):
            return ctx.violate("C03", "sm.write", "header_round_trip",
                               f"{attr}: memory {getattr(ms, attr)!r}, read back {getattr(r1, attr)!r}", wit, dict(feat, field=attr))
    for attr in ("offset", "sample_start", "sample_length"):
        if not close(getattr(r1, attr), getattr(ms, attr)):
            return ctx.violate("C03", "sm.write", "header_round_trip",
                               f"{attr}: memory {getattr(ms, attr)!r}, read back {getattr(r1, attr)!r}", wit, dict(feat, field=attr))
    if bool(r1.selectable) != bool(ms.selectable):
        return ctx.violate("C03", "sm.write", "header_round_trip",
                           f"selectable: memory {ms.selectable!r}, read back {r1.selectable!r}", wit, dict(feat, field="selectable"))
    ctx.held("sm.write", "header_round_trip")
    # second generation: only where the read-back mapset is itself inside the
    # writer's domain with an exactly representable grid (its tempo list is the
    # reseated one, which can push objects of a squeezed partial measure off
    # the grid or over the 384-row cap)
    try:
        why1, info1 = write_domain(r1)
    except Exception:
        why1, info1 = "domain_gate_failed", None
    if why1 or info1[3]:
        ctx.seen("sm.write", "second_generation_skipped." + (why1 or "over_384_rows"))
        for m in ms.maps:
            ctx.state("sm.write.chart", (m.chart_type, on_measure, len(pts) > 1))
        return
    try:
        t2 = r1.write()
        r2 = SMMapSet.read(t2)
    except Exception as e:
        return ctx.violate("C03", "sm.write", "second_generation", f"write/read of the read-back mapset raised {type(e).__name__}: {e}",
                           dict(wit, tb=core.short_tb(e)), feat)
    if len(r1.maps) != len(r2.maps):
        return ctx.violate("C03", "sm.write", "second_generation", "chart count changed in the second generation", wit, feat)
    for ci, (a, b) in enumerate(zip(r1.maps, r2.maps)):
        bad = compare_objects(mem_objects(a), mem_objects(b), lambda t: MS_ABS + MS_REL * abs(t))
        if bad:
            return ctx.violate("C03", "sm.write", "second_generation",
                               f"chart {ci}: read(write(x)) differs from read(write(read(write(x)))): {bad[1]}", wit, feat)
    ctx.held("sm.write", "second_generation")
    for m in ms.maps:
        ctx.state("sm.write.chart", (m.chart_type, on_measure, len(pts) > 1))


def install(ctx, read=True, write=True):
    from reamber.sm.SMMapSet import SMMapSet

    if read:
        patch_method(SMMapSet, "read", monitor("sm.read", judge_read))
    if write:
        patch_method(SMMapSet, "write", monitor("sm.write", judge_write))
