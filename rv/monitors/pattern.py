"""C20 monitors: Pattern.group (partition / window invariants), the three
PtnFilter*.create (reference option expansions) and PtnCombo.combinations
(brute-force product with reference filter semantics)."""
from __future__ import annotations

import itertools
import math
from collections import Counter

from rv import core
from rv.install import monitor, patch_method


def rec_key(r):
    return (int(r["column"]) if float(r["column"]).is_integer() else float(r["column"]), float(r["offset"]), r["type"].__name__)


# ---------------------------------------------------------------------------

def judge_group(ctx, args, kwargs, result, exc, pre):
    self = args[0]
    v = kwargs.get("v_window", args[1] if len(args) > 1 else 50.0)
    h = kwargs.get("h_window", args[2] if len(args) > 2 else None)
    jack = kwargs.get("avoid_jack", args[3] if len(args) > 3 else True)
    df = self.df
    if not (v >= 0) or (h is not None and not (h >= 0)):
        return ctx.ood("pattern.group", "negative_window")
    if len(df) and (df["offset"].isna().any() or df["column"].isna().any()):
        return ctx.ood("pattern.group", "nan")
    notes = [(c if not float(c).is_integer() else int(c), float(o), t.__name__) for c, o, t in zip(df["column"].tolist(), df["offset"].tolist(), df["type"].tolist())]
    feat = dict(avoid_jack=bool(jack), h_window=h is not None)
    wit = dict(notes=notes[:120], v_window=v, h_window=h, avoid_jack=jack)
    if exc is not None:
        return ctx.violate("C20", "pattern.group", "raises", f"group raised {type(exc).__name__}: {exc}", dict(wit, tb=core.short_tb(exc)), feat)
    groups = [[rec_key(r) for r in g] for g in result]
    wit["groups"] = groups[:60]
    got = Counter(k for g in groups for k in g)
    want = Counter(notes)
    if got != want:
        twice = list((got - want).items())[:4]
        missing = list((want - got).items())[:4]
        return ctx.violate("C20", "pattern.group", "partition", f"not a partition: in more groups than it exists {twice}, in no group {missing}", wit, feat)
    for gi, g in enumerate(groups):
        if not g:
            return ctx.violate("C20", "pattern.group", "partition", f"group {gi} is empty", wit, feat)
        c0, o0, _ = g[0]
        for c, o, _t in g:
            if not (o0 <= o <= o0 + v):
                return ctx.violate("C20", "pattern.group", "v_window", f"group {gi}: note at {o} outside [{o0}, {o0 + v}] of its first note", wit, feat)
            if h is not None and abs(c - c0) > h:
                return ctx.violate("C20", "pattern.group", "h_window", f"group {gi}: column {c} further than {h} from the first note's column {c0}", wit, feat)
        if jack and len({c for c, _, _ in g}) != len(g):
            return ctx.violate("C20", "pattern.group", "jack", f"group {gi} repeats a column although jacks are avoided: {g[:8]}", wit, feat)
    ctx.held("pattern.group", "invariants")
    ctx.state("group.case", (v == 0, h, bool(jack), len(notes) > 0, len(groups) != len(notes)))


def judge_from_lists(ctx, args, kwargs, result, exc, pre):
    """Pattern.from_note_lists: the pattern's notes are exactly the rows of the lists (column, time, item type) plus, when
    requested, one HoldTail per hold at head + length - whatever the row labels or order of the lists."""
    from rv.snapshot import rows

    mon = "pattern.from_lists"
    lists = list(args[0] if args else kwargs["note_lists"])
    tails = kwargs.get("include_tails", args[1] if len(args) > 1 else True)
    want = Counter()
    try:
        for nl in lists:
            if not len(nl):
                continue
            tname = nl._item_class().__name__
            is_hold = "length" in nl.df.columns
            for r in rows(nl, ["column", "offset"] + (["length"] if is_hold else [])):
                c, o = float(r[0]), float(r[1])
                if math.isnan(c) or math.isnan(o) or (is_hold and math.isnan(float(r[2]))):
                    return ctx.ood(mon, "nan")
                want[(int(c) if c.is_integer() else c, o, tname)] += 1
                if is_hold and tails:
                    want[(int(c) if c.is_integer() else c, o + float(r[2]), "HoldTail")] += 1
    except Exception:
        return ctx.ood(mon, "lists_not_readable")
    feat = dict(include_tails=bool(tails), default_labels=all(list(nl.df.index) == list(range(len(nl.df))) for nl in lists))
    wit = dict(want=sorted(want.elements(), key=str)[:60], include_tails=bool(tails))
    if exc is not None:
        return ctx.violate("C20", mon, "raises", f"from_note_lists raised {type(exc).__name__}: {exc}", dict(wit, tb=core.short_tb(exc)), feat)
    df = result.df
    got = Counter()
    for c, o, t in zip(df["column"].tolist(), df["offset"].tolist(), df["type"].tolist()):
        c, o = float(c), float(o)
        got[(int(c) if c.is_integer() else c, o, t.__name__)] += 1
    if {k: v for k, v in got.items()} != {k: v for k, v in want.items()}:
        def close(a, b):
            return a[0] == b[0] and a[2] == b[2] and abs(a[1] - b[1]) <= 1e-9 * max(1.0, abs(a[1]))
        extra, missing = list((got - want).elements()), list((want - got).elements())
        for e in list(extra):
            m = next((x for x in missing if close(e, x)), None)
            if m is not None:
                extra.remove(e)
                missing.remove(m)
        if extra or missing:
            return ctx.violate("C20", mon, "notes", f"the pattern does not hold the notes of the lists: missing {missing[:4]}, extra {[str(e) for e in extra[:4]]}", wit, feat)
    ctx.held(mon, "notes")
    ctx.state("from_lists.case", (feat["include_tails"], feat["default_labels"], len(want) > 0))


# ---------------------------------------------------------------------------
# reference expansions

def ref_combo_rows(base, keys, options):
    rows = {tuple(int(x) for x in r) for r in base}
    if options & 1:  # REPEAT: all in-range translations
        out = set()
        for r in rows:
            for d in range(-min(r), keys - max(r)):
                out.add(tuple(x + d for x in r))
        rows = out
    if options & 2:  # HMIRROR
        rows |= {tuple(keys - 1 - x for x in r) for r in rows}
    if options & 4:  # VMIRROR
        rows |= {tuple(reversed(r)) for r in rows}
    return rows


def ref_chord_rows(base, keys, options):
    rows = {tuple(int(x) for x in r) for r in base}
    out = set(rows)
    if options & 4:  # AND_HIGHER
        for r in rows:
            out |= set(itertools.product(*[range(s, keys + 1) for s in r]))
    if options & 2:  # AND_LOWER
        for r in rows:
            out |= set(itertools.product(*[range(1, s + 1) for s in r]))
    if options & 1:  # ANY_ORDER
        out = {p for r in out for p in itertools.permutations(r)}
    return out


def ref_type_rows(base, options):
    rows = [tuple(r) for r in base]
    if options & 1:
        rows = [p for r in rows for p in itertools.permutations(r)]
    elif options & 2:
        rows = rows + [tuple(reversed(r)) for r in rows]
    return set(rows)


def _as_rows(x, n_dim_fix=True):
    import numpy as np

    a = np.asarray(x)
    if a.ndim < 2:
        a = a[..., np.newaxis] if a.ndim == 1 else a.reshape(1, 1)
    return [tuple(r) for r in a.tolist()] if a.dtype != object else [tuple(r) for r in a]


def make_judge_create(kind):
    name = f"filter.{kind}.create"

    def judge(ctx, args, kwargs, result, exc, pre):
        import numpy as np

        if kind == "type":
            base = args[0] if args else kwargs["types"]
            options = kwargs.get("options", args[1] if len(args) > 1 else 0)
            exclude = kwargs.get("exclude", args[2] if len(args) > 2 else False)
            keys = None
        else:
            base = args[0] if args else kwargs["combos" if kind == "combo" else "chord_sizes"]
            keys = kwargs.get("keys", args[1] if len(args) > 1 else None)
            options = kwargs.get("options", args[2] if len(args) > 2 else 0)
            exclude = kwargs.get("exclude", args[3] if len(args) > 3 else False)
        options = int(options or 0)
        try:
            arr = np.asarray(base, dtype=object if kind == "type" else None)
        except Exception:
            return ctx.ood(name, "ragged_base")
        if arr.ndim != 2 or arr.shape[0] == 0 or arr.shape[1] == 0:
            return ctx.ood(name, "base_not_2d")
        rows = [tuple(r) for r in arr.tolist()] if kind != "type" else [tuple(r) for r in arr]
        feat = dict(kind=kind, and_lower_or_higher=bool(kind == 'chord' and options & 6), multi_row=len(rows) > 1)
        wit = dict(base=[[getattr(x, "__name__", x) for x in r] for r in rows], keys=keys, options=options, exclude=exclude)
        if kind == "combo":
            if any(not (0 <= x < keys) for r in rows for x in r):
                return ctx.ood(name, "column_outside_keys")
            want = ref_combo_rows(rows, keys, options)
        elif kind == "chord":
            if any(not (1 <= x <= keys) for r in rows for x in r):
                return ctx.ood(name, "size_outside_keys")
            if options & 2 and options & 4:
                return ctx.ood(name, "and_lower_with_and_higher_unspecified")
            want = ref_chord_rows(rows, keys, options)
        else:
            want = ref_type_rows(rows, options)
        if exc is not None:
            return ctx.violate("C20", name, "raises", f"create raised {type(exc).__name__}: {exc}", dict(wit, tb=core.short_tb(exc)), feat)
        got_arr = result.ar
        got = {tuple(r) for r in (got_arr.tolist() if kind != "type" else list(got_arr))}
        if kind != "type":
            got = {tuple(int(x) for x in r) for r in got}
        if bool(result.invert_filter) != bool(exclude):
            return ctx.violate("C20", name, "exclude", f"exclude={exclude} but invert_filter={result.invert_filter}", wit, feat)
        if got != want:
            nm = lambda s: sorted([tuple(getattr(x, "__name__", x) for x in r) for r in s], key=repr)[:8]
            return ctx.violate("C20", name, "expansion", f"expansion differs: extra {nm(got - want)}, missing {nm(want - got)}", wit, feat)
        ctx.held(name, "expansion")
        ctx.state("filter.create", (kind, options, bool(exclude)))

    return judge


# ---------------------------------------------------------------------------

def filter_spec(f):
    """(kind, rows, invert, keys) of a filter callable created by PtnFilter*.create, else None."""
    s = getattr(f, "__self__", None)
    if s is None:
        return None
    n = type(s).__name__
    kind = {"PtnFilterCombo": "combo", "PtnFilterChord": "chord", "PtnFilterType": "type"}.get(n)
    if kind is None:
        return None
    rows = [tuple(r) for r in (s.ar.tolist() if kind != "type" else list(s.ar))]
    return kind, rows, bool(s.invert_filter), s.keys


def judge_combinations(ctx, args, kwargs, result, exc, pre):
    self = args[0]
    names = ["size", "make_size2", "chord_filter", "combo_filter", "type_filter"]
    defaults = dict(size=2, make_size2=False, chord_filter=None, combo_filter=None, type_filter=None)
    p = dict(defaults)
    for n, a in zip(names, args[1:]):
        p[n] = a
    p.update(kwargs)
    size = p["size"]
    groups = self.groups
    if not isinstance(size, int) or size < 1:
        return ctx.ood("combo.combinations", "bad_size")
    specs = {}
    for k in ("chord_filter", "combo_filter", "type_filter"):
        if p[k] is not None:
            sp = filter_spec(p[k])
            if sp is None or sp[0] != k.split("_")[0]:
                return ctx.ood("combo.combinations", "custom_filter_callable")
            if len(sp[1]) and len(sp[1][0]) != size:
                return ctx.ood("combo.combinations", "filter_length_differs_from_size")
            specs[k] = sp
    gk = [[rec_key(r) for r in g] for g in groups]
    if "combo_filter" in specs:
        keys = specs["combo_filter"][3]
        if any(not (0 <= c < keys) for g in gk for c, _, _ in g):
            return ctx.ood("combo.combinations", "column_outside_filter_keys")
    types = {}
    for g in groups:
        for r in g:
            types[r["type"].__name__] = r["type"]
    work = 0
    for i in range(0, len(gk) - size + 1):
        w = 1
        for g in gk[i:i + size]:
            w *= len(g)
        work += w
    if work > 400000:
        return ctx.ood("combo.combinations", "too_large_for_brute_force")
    fl = sorted(k.split("_")[0] + ("!" if specs[k][2] else "") for k in specs)
    feat = dict(chord_filter=("exclude" if specs["chord_filter"][2] else "include") if "chord_filter" in specs else "none")
    wit = dict(groups=gk[:40], size=size, make_size2=p["make_size2"],
               filters={k: dict(rows=[[getattr(x, "__name__", x) for x in r] for r in v[1]][:40], invert=v[2], keys=v[3]) for k, v in specs.items()})
    if exc is not None:
        return ctx.violate("C20", "combo.combinations", "raises", f"combinations raised {type(exc).__name__}: {exc}", dict(wit, tb=core.short_tb(exc)), feat)
    want = Counter()
    for i in range(0, len(gk) - size + 1):
        chunk = gk[i:i + size]
        if "chord_filter" in specs:
            _, rows, inv, _ = specs["chord_filter"]
            ok = tuple(len(g) for g in chunk) in {tuple(int(x) for x in r) for r in rows}
            if ok == inv:
                continue
        for seq in itertools.product(*chunk):
            if "combo_filter" in specs:
                _, rows, inv, _ = specs["combo_filter"]
                ok = tuple(c for c, _, _ in seq) in {tuple(int(x) for x in r) for r in rows}
                if ok == inv:
                    continue
            if "type_filter" in specs:
                _, rows, inv, _ = specs["type_filter"]
                ok = any(all(issubclass(types[t], cls) for (_, _, t), cls in zip(seq, row)) for row in rows)
                if ok == inv:
                    continue
            if p["make_size2"]:
                for a, b in zip(seq, seq[1:]):
                    want[(a, b)] += 1
            else:
                want[tuple(seq)] += 1
    got = Counter()
    width = 2 if p["make_size2"] else size
    try:
        for ar in result:
            if ar.size == 0:
                return ctx.violate("C20", "combo.combinations", "shape", "an empty array is reported", wit, feat)
            if ar.ndim != 2 or ar.shape[1] != width:
                return ctx.violate("C20", "combo.combinations", "shape", f"reported array of shape {ar.shape}, expected (*, {width})", wit, feat)
            for row in ar:
                got[tuple(rec_key(r) for r in row)] += 1
    except Exception as e:
        return ctx.violate("C20", "combo.combinations", "shape", f"result not readable: {type(e).__name__}: {e}", wit, feat)
    if got != want:
        extra = list((got - want).items())[:3]
        missing = list((want - got).items())[:3]
        clause = "extra" if extra else "missing"
        return ctx.violate("C20", "combo.combinations", clause, f"{sum((got - want).values())} extra e.g. {extra}; {sum((want - got).values())} missing e.g. {missing}", wit, feat)
    ctx.held("combo.combinations", "exact")
    ctx.state("combo.case", (size, bool(p["make_size2"]), tuple(fl), sum(want.values()) > 0))


def install(ctx):
    from reamber.algorithms.pattern.combos.PtnCombo import PtnCombo
    from reamber.algorithms.pattern.filters.PtnFilter import PtnFilterChord, PtnFilterCombo, PtnFilterType
    from reamber.algorithms.pattern.Pattern import Pattern

    patch_method(Pattern, "group", monitor("pattern.group", judge_group))
    patch_method(Pattern, "from_note_lists", monitor("pattern.from_lists", judge_from_lists))
    patch_method(PtnCombo, "combinations", monitor("combo.combinations", judge_combinations))
    patch_method(PtnFilterCombo, "create", monitor("filter.combo.create", make_judge_create("combo")))
    patch_method(PtnFilterChord, "create", monitor("filter.chord.create", make_judge_create("chord")))
    patch_method(PtnFilterType, "create", monitor("filter.type.create", make_judge_create("type")))
