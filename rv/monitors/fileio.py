"""Active checks on the file forms of the readers / writers (the properties'
observe_at lists read_file / write_file next to read / write):
  write_file(path, ...) must put exactly write(...) on disk;
  read_file(path, ...) must give the same chart as read(content, ...)."""
from __future__ import annotations

import os
import shutil
import tempfile

from rv import core
from rv.snapshot import diff_snapshots, snapshot


def check_write_file(ctx, prop, obj, args=(), kind="text"):
    """kind: text (str) | lines (list of str joined by \\n) | bytes"""
    mon = "fileio.write_file"
    d = tempfile.mkdtemp(prefix="rv_io_")
    try:
        path = os.path.join(d, "out.bin")
        try:
            with ctx.quiet():
                want = obj.write(*args)
        except Exception:
            return ctx.ood(mon, "write_itself_raises")
        try:
            obj.write_file(path, *args)
        except Exception as e:
            return ctx.violate(prop, mon, "raises", f"{type(obj).__name__}.write_file raised {type(e).__name__}: {e} although write() succeeded",
                               dict(tb=core.short_tb(e)), dict(cls=type(obj).__name__))
        with open(path, "rb") as f:
            got = f.read()
        if kind == "bytes":
            exp = want
        else:
            exp = ("\n".join(map(str, want)) if kind == "lines" else want).encode("utf8")
        if got.replace(b"\r\n", b"\n") != exp.replace(b"\r\n", b"\n"):
            i = next((k for k, (a, b) in enumerate(zip(got, exp)) if a != b), min(len(got), len(exp)))
            return ctx.violate(prop, mon, "differs_from_write", f"{type(obj).__name__}.write_file put {len(got)} bytes on disk, write() gives {len(exp)}; first difference at byte {i}: "
                               f"{got[max(0, i - 20):i + 30]!r} vs {exp[max(0, i - 20):i + 30]!r}", dict(args=repr(args)[:200]), dict(cls=type(obj).__name__))
        ctx.held(mon, type(obj).__name__)
    finally:
        shutil.rmtree(d, ignore_errors=True)


def check_read_file(ctx, prop, cls, content, args=(), read_arg=None, encoding="utf8", bom=None, crlf=None):
    """content: str or bytes as stored on disk; read_arg: what read() takes for the same content (default: derived).
    bom: store the text with a UTF-8 byte order mark (as Windows editors and osu! itself save files); default: every fourth case.
    crlf: store the text with \\r\\n line ends (as the games themselves save files); default: every fourth case of text content."""
    mon = "fileio.read_file"
    d = tempfile.mkdtemp(prefix="rv_io_")
    if bom is None:
        bom = isinstance(content, str) and encoding == "utf8" and (ctx.cur_k or 0) % 4 == 0
    try:
        path = os.path.join(d, "in.bin")
        raw = content if isinstance(content, bytes) else content.encode(encoding)
        if crlf is None:
            crlf = isinstance(content, str) and (ctx.cur_k or 0) % 4 == 2
        if crlf is True and isinstance(content, str) and (ctx.cur_k or 0) % 8 == 6:
            crlf = "cr"  # classic Mac OS line ends: text-mode reading treats a bare \r as a line end too
        if crlf == "cr":
            raw = raw.replace(b"\r\n", b"\n").replace(b"\n", b"\r")
        elif crlf:
            raw = raw.replace(b"\r\n", b"\n").replace(b"\n", b"\r\n")
        if bom:
            raw = b"\xef\xbb\xbf" + raw
        with open(path, "wb") as f:
            f.write(raw)
        try:
            with ctx.quiet():
                a = cls.read(read_arg if read_arg is not None else content, *args)
        except Exception:
            return ctx.ood(mon, "read_itself_raises")
        try:
            b = cls.read_file(path, *args)
        except Exception as e:
            return ctx.violate(prop, mon, "raises", f"{cls.__name__}.read_file raised {type(e).__name__}: {e} although read() of the same content succeeded",
                               dict(tb=core.short_tb(e), bom=bom), dict(cls=cls.__name__, byte_order_mark=bool(bom), crlf=str(crlf)))
        with ctx.quiet():
            diff = diff_snapshots(snapshot(a), snapshot(b))
        if diff:
            return ctx.violate(prop, mon, "differs_from_read", f"{cls.__name__}.read_file gives a different chart than read() of the same content: {diff}", dict(diff=diff, bom=bom), dict(cls=cls.__name__, byte_order_mark=bool(bom), crlf=str(crlf)))
        ctx.held(mon, cls.__name__)
        ctx.state("fileio.read_file.case", (cls.__name__, bool(bom), str(crlf)))
    finally:
        shutil.rmtree(d, ignore_errors=True)


def check_c_locale(ctx, prop, game):
    """write_file / read_file in a process whose default text encoding is not UTF-8 (POSIX "C" locale, UTF-8 mode off): the
    file on disk must still be write() in UTF-8 and read_file must give the metadata back.  One child interpreter per call."""
    import json
    import subprocess
    import sys

    mon = "fileio.c_locale"
    here = os.path.dirname(os.path.dirname(os.path.abspath(__file__)))
    env = {k: v for k, v in os.environ.items() if not k.startswith("LC_") and k not in ("LANG", "LANGUAGE", "PYTHONIOENCODING")}
    env.update(LC_ALL="C", LANG="C", PYTHONUTF8="0", PYTHONCOERCECLOCALE="0", PYTHONHASHSEED="0")
    try:
        r = subprocess.run([sys.executable, "-X", "utf8=0", os.path.join(here, "locale_child.py"), core.REPO, game], capture_output=True, timeout=300, env=env)
        line = [ln for ln in r.stdout.decode("ascii", "replace").split("\n") if ln.startswith("RESULT ")]
        out = json.loads(line[-1][7:]) if line else None
    except Exception as e:
        out = None
        r = None
    if out is None or os.path.realpath(out.get("reamber", "")) != os.path.realpath(os.path.join(core.REPO, "reamber")):
        ctx.counters[f"{mon}|child_failed"] += 1
        ctx.notes.append(f"c-locale child gave no result for {game}: {None if r is None else r.stderr.decode('ascii', 'replace')[-300:]}")
        return
    if out.get("preferred_encoding", "").lower().replace("-", "") in ("utf8",) or out.get("utf8_mode"):
        return ctx.ood(mon, "platform_has_no_non_utf8_locale")
    feat = dict(game=game, c_locale=True)
    if "write_file_raises" in out:
        return ctx.violate(prop, mon, "write_file_raises", f"{game} write_file under the C locale (default encoding {out['preferred_encoding']}) raised {out['write_file_raises']}", out, feat)
    if out.get("disk_hex") != out.get("want_hex"):
        return ctx.violate(prop, mon, "not_utf8_on_disk", f"{game} write_file under the C locale put other bytes on disk than write() in UTF-8", dict(out, want_hex=out["want_hex"][:400], disk_hex=out.get("disk_hex", "")[:400]), feat)
    if "read_file_raises" in out or out.get("read_back") != out.get("want_field"):
        return ctx.violate(prop, mon, "read_back", f"{game} read_file under the C locale: {out.get('read_file_raises') or repr(out.get('read_back'))} instead of {out.get('want_field')!r}", dict(out, want_hex="", disk_hex=""), feat)
    ctx.held(mon, game)
    ctx.state("fileio.c_locale", (game, out["preferred_encoding"]))
