"""Active checks on the file forms of the readers / writers (the properties'
observe_at lists read_file / write_file next to read / write):
  write_file(path, ...) must put exactly write(...) on disk;
  read_file(path, ...) must give the same chart as read(content, ...)."""
from __future__ import annotations

import os
import shutil
import tempfile

from rv import core
from rv.snapshot import diff_snapshots, snapshot


def check_write_file(ctx, prop, obj, args=(), kind="text"):
    """kind: text (str) | lines (list of str joined by \\n) | bytes"""
    mon = "fileio.write_file"
    d = tempfile.mkdtemp(prefix="rv_io_")
    try:
        path = os.path.join(d, "out.bin")
        try:
            with ctx.quiet():
                want = obj.write(*args)
        except Exception:
            return ctx.ood(mon, "write_itself_raises")
        try:
            obj.write_file(path, *args)
        except Exception as e:
            return ctx.violate(prop, mon, "raises", f"{type(obj).__name__}.write_file raised {type(e).__name__}: {e} although write() succeeded",
                               dict(tb=core.short_tb(e)), dict(cls=type(obj).__name__))
        with open(path, "rb") as f:
            got = f.read()
        if kind == "bytes":
            exp = want
        else:
            exp = ("\n".join(map(str, want)) if kind == "lines" else want).encode("utf8")
        if got.replace(b"\r\n", b"\n") != exp.replace(b"\r\n", b"\n"):
            i = next((k for k, (a, b) in enumerate(zip(got, exp)) if a != b), min(len(got), len(exp)))
            return ctx.violate(prop, mon, "differs_from_write", f"{type(obj).__name__}.write_file put {len(got)} bytes on disk, write() gives {len(exp)}; first difference at byte {i}: "
                               f"{got[max(0, i - 20):i + 30]!r} vs {exp[max(0, i - 20):i + 30]!r}", dict(args=repr(args)[:200]), dict(cls=type(obj).__name__))
        ctx.held(mon, type(obj).__name__)
    finally:
        shutil.rmtree(d, ignore_errors=True)


def check_read_file(ctx, prop, cls, content, args=(), read_arg=None, encoding="utf8"):
    """content: str or bytes as stored on disk; read_arg: what read() takes for the same content (default: derived)."""
    mon = "fileio.read_file"
    d = tempfile.mkdtemp(prefix="rv_io_")
    try:
        path = os.path.join(d, "in.bin")
        raw = content if isinstance(content, bytes) else content.encode(encoding)
        with open(path, "wb") as f:
            f.write(raw)
        try:
            with ctx.quiet():
                a = cls.read(read_arg if read_arg is not None else content, *args)
        except Exception:
            return ctx.ood(mon, "read_itself_raises")
        try:
            b = cls.read_file(path, *args)
        except Exception as e:
            return ctx.violate(prop, mon, "raises", f"{cls.__name__}.read_file raised {type(e).__name__}: {e} although read() of the same content succeeded",
                               dict(tb=core.short_tb(e)), dict(cls=cls.__name__))
        with ctx.quiet():
            diff = diff_snapshots(snapshot(a), snapshot(b))
        if diff:
            return ctx.violate(prop, mon, "differs_from_read", f"{cls.__name__}.read_file gives a different chart than read() of the same content: {diff}", dict(diff=diff), dict(cls=cls.__name__))
        ctx.held(mon, cls.__name__)
    finally:
        shutil.rmtree(d, ignore_errors=True)
