"""R-monitors on OsuMap.read / OsuMap.write (C01) against rv/ref/osu.py."""
from __future__ import annotations

import math

from rv import core
from rv.install import monitor, patch_method
from rv.ref import osu as ro
from rv.snapshot import rows

NOTE_X = ["hitsound_set", "sample_set", "addition_set", "custom_set", "volume", "hitsound_file"]
TP_X = ["sample_set", "sample_set_index", "volume", "kiai"]


def rel(a, b, r=1e-9):
    a, b = float(a), float(b)
    return a == b or abs(a - b) <= r * max(abs(a), abs(b))


def mem_den(m):
    """Denotation of an in-memory OsuMap in the same shape as ref.parse_osu."""
    def lst(tl, cols):
        have = [c for c in cols if c in tl.df.columns]
        return [dict(zip(have, r)) for r in rows(tl, have)]

    d = dict(
        hits=lst(m.hits, ["offset", "column"] + NOTE_X),
        holds=lst(m.holds, ["offset", "column", "length"] + NOTE_X),
        bpms=lst(m.bpms, ["offset", "bpm", "metronome"] + TP_X),
        svs=lst(m.svs, ["offset", "multiplier", "metronome"] + TP_X),
        samples=[(float(o), f, v) for o, f, v in rows(m.samples, ["offset", "sample_file", "volume"])],
        background=m.background_file_name,
        meta={attr: getattr(m, attr) for table in ro.META.values() for attr, _ in table.values()},
    )
    return d


def _num(x):
    return x == "NaN" or (isinstance(x, float) and (math.isnan(x) or math.isinf(x)))


def match_rows(want, got, time_keys, tol_fn, rel_keys=(), skip=()):
    """Multiset match of row dicts: exact keys form the bucket; within a bucket rows are matched
    one-to-one (bipartite matching) so that every time key is within tolerance
    and every rel key within 1e-9.  Returns None or a message."""
    def bucket(r):
        out = []
        for k, v in sorted(r.items()):
            if k in time_keys or k in skip:
                continue
            if k in rel_keys:
                continue  # matched with tolerance inside the bucket (rounding here would split equal values at a rounding boundary)
            elif isinstance(v, (bool, int)) or (isinstance(v, float) and v.is_integer()):
                out.append((k, int(v)))
            else:
                out.append((k, v))
        return tuple(out)

    bw, bg = {}, {}
    for r in want:
        bw.setdefault(bucket(r), []).append(r)
    for r in got:
        bg.setdefault(bucket(r), []).append(r)
    if {k: len(v) for k, v in bw.items()} != {k: len(v) for k, v in bg.items()}:
        onlyw = [dict(k) for k in bw if len(bw[k]) != len(bg.get(k, []))][:2]
        onlyg = [dict(k) for k in bg if len(bg[k]) != len(bw.get(k, []))][:2]
        return f"objects differ: expected-only {onlyw}, got-only {onlyg}"

    def ok(w, g):
        return all(tol_fn(float(w[k]), float(g[k])) for k in time_keys) and all(rel(w[k], g[k]) for k in rel_keys)

    keyf = lambda r: tuple(float(r[k]) for k in time_keys) + tuple(float(r[k]) for k in rel_keys)
    for b in bw:
        W, G = sorted(bw[b], key=keyf), sorted(bg[b], key=keyf)
        if all(ok(w, g) for w, g in zip(W, G)):
            continue
        # general case: augmenting-path bipartite matching
        match_g = [-1] * len(G)

        def aug(i, seen):
            for j in range(len(G)):
                if j not in seen and ok(W[i], G[j]):
                    seen.add(j)
                    if match_g[j] < 0 or aug(match_g[j], seen):
                        match_g[j] = i
                        return True
            return False

        for i in range(len(W)):
            if not aug(i, set()):
                w = W[i]
                near = min(G, key=lambda g: sum(abs(float(g[k]) - float(w[k])) for k in time_keys)) if time_keys else G[0]
                return "; ".join(f"{k}: expected {w[k]}, nearest got {near[k]}" for k in list(time_keys) + list(rel_keys)) + f" (object {dict(b)})"
    return None


FULL_HIT = 5   # commas in a complete v14 hit-object line


def read_domain(lines, den):
    text = "\n".join(lines) if not isinstance(lines, str) else lines
    if "\r" in text:
        return "carriage_returns"
    if den["header"] is None or "osu file format" not in den["header"]:
        return "no_format_header"
    if den["problems"]:
        return "malformed_file"
    if "TimingPoints" not in den["order"] or "HitObjects" not in den["order"]:
        return "missing_section"
    if not (1 <= den["keys"] <= 18):
        return "key_count_outside_1_18"
    for ln in den["raw"]["HitObjects"]:
        if ln.count(",") != 5 or ln.count(":") not in (4, 5):
            return "abbreviated_hit_object_line"
        typ = int(ln.split(",")[3])
        if bool(typ & 128) != (ln.count(":") == 5):
            return "file_name_with_colon"
    for ln in den["raw"]["TimingPoints"]:
        f = ln.split(",")
        if len(f) != 8:
            return "abbreviated_timing_point_line"
        if float(f[1]) == 0 or f[6] not in ("0", "1") or not (0 <= int(f[7]) <= 15):   # effects is a bit field: 1 kiai, 8 omit first bar line
            return "zero_beat_length_or_effect_bits"
    if any(_num(b["bpm"]) for b in den["bpms"]) or any(_num(s["multiplier"]) for s in den["svs"]):
        return "non_finite_value"
    for ln in den["raw"]["Events"]:
        if ln.startswith(("Sample", "5,")) and (ln.count(",") != 4 or ln.split(",")[3].count('"') not in (0, 2)):
            return "abbreviated_sample_event" if ln.count(",") != 4 else "sample_file_quotes"
    return None


def read_features(lines, den):
    ev = den["raw"]["Events"]
    meta_lines = [ln for s in ("General", "Metadata") for ln in den["raw"][s]]
    return dict(
        meta_value_with_colon=any(ln.count(":") > 1 for ln in meta_lines),
        event_comment_lines=any(ln.startswith("//Background") for ln in ev) and any(ln.startswith("//Storyboard Sound") for ln in ev),
        other_event_before_background=bool(ev) and any(not ln.startswith(("//", "0,", "Sample", "5,")) for ln in ev),
        has_events=any(not ln.startswith("//") for ln in ev),
    )


def judge_read(ctx, args, kwargs, result, exc, pre):
    lines = args[0] if args else kwargs["lines"]
    if isinstance(lines, str):
        return ctx.ood("osu.read", "string_argument")
    try:
        den = ro.parse_osu(lines)
    except Exception:
        ctx.counters["osu.read|reference_failed"] += 1
        return ctx.ood("osu.read", "reference_could_not_parse")
    why = read_domain(lines, den)
    if why:
        return ctx.ood("osu.read", why)
    feat = read_features(lines, den)
    text = "\n".join(lines)
    wit = dict(text=text if len(text) < 6000 else text[:6000] + "...")
    if exc is not None:
        return ctx.violate("C01", "osu.read", "raises", f"OsuMap.read raised {type(exc).__name__}: {exc}", dict(wit, tb=core.short_tb(exc)), feat)
    got = mem_den(result)
    for attr, v in den["meta"].items():
        g = got["meta"][attr]
        same = (rel(g, v, 1e-12) if isinstance(v, float) else g == v)
        if not same:
            return ctx.violate("C01", "osu.read", "metadata", f"{attr}: file says {v!r}, read gave {g!r}", wit, dict(feat, field=attr))
    if den["background"] is not None and got["background"] != den["background"]:
        return ctx.violate("C01", "osu.read", "events", f"background: file says {den['background']!r}, read gave {got['background']!r}", wit, feat)
    ws = sorted((t, ro.unquote(f), v) for t, f, v in den["samples"])
    gs = sorted((t, ro.unquote(f), v) for t, f, v in got["samples"])
    if ws != gs:
        return ctx.violate("C01", "osu.read", "events", f"sample events: file has {ws[:4]} ({len(ws)}), read gave {gs[:4]} ({len(gs)})", wit, feat)
    exact = lambda a, b: a == b
    for name, tk, rk in (("hits", ["offset"], []), ("holds", ["offset", "length"], []), ("bpms", ["offset"], ["bpm"]), ("svs", ["offset"], ["multiplier"])):
        skip = () if (name != "svs" or (got["svs"] and "metronome" in got["svs"][0])) else ("metronome",)
        bad = match_rows(den[name], got[name], tk, exact, rk, skip)
        if bad:
            return ctx.violate("C01", "osu.read", name, f"{name}: {bad}", wit, feat)
    ctx.held("osu.read", "denotation")
    ctx.state("osu.read.case", (den["keys"], bool(den["holds"]), bool(den["svs"]), bool(den["samples"])))


BAD = ("\n", "\r")


def write_domain(m):
    try:
        keys = int(m.circle_size)
    except Exception:
        return "circle_size_not_a_number"
    if not (1 <= keys <= 18):
        return "key_count_outside_1_18"
    for tl, cols in ((m.hits, ["offset", "column"]), (m.holds, ["offset", "column", "length"]), (m.bpms, ["offset", "bpm", "metronome"]),
                     (m.svs, ["offset", "multiplier"]), (m.samples, ["offset"])):
        for c in cols:
            if c not in tl.df.columns:
                return "list_without_declared_field"
        for r in rows(tl, cols):
            if any(v == "NaN" or (isinstance(v, float) and not math.isfinite(v)) for v in r):
                return "non_finite_value"
    if any(not (0 <= c < keys) or float(c) != int(c) for _, c in rows(m.hits, ["offset", "column"])) or \
            any(not (0 <= c < keys) or float(c) != int(c) for _, c, _ in rows(m.holds, ["offset", "column", "length"])):
        return "column_outside_key_count"
    if any(b == 0 for _, b, _ in rows(m.bpms, ["offset", "bpm", "metronome"])) or any(x == 0 for _, x in rows(m.svs, ["offset", "multiplier"])):
        return "zero_bpm_or_multiplier"
    for tl in (m.hits, m.holds):
        if any(not isinstance(f, str) or any(ch in f for ch in ",:\n") for (f,) in rows(tl, ["hitsound_file"])):
            return "hitsound_file_needs_escaping"
        if any(v == "NaN" for r in rows(tl, NOTE_X) for v in r):
            return "missing_value_in_note_field"
    if any(not isinstance(f, str) or any(ch in ro.unquote(f) for ch in ',"\n') for (f,) in rows(m.samples, ["sample_file"])):
        return "sample_file_needs_escaping"
    for table in ro.META.values():
        for attr, kind in table.values():
            v = getattr(m, attr)
            if kind == "str" and (not isinstance(v, str) or any(b in v for b in BAD) or v != v.strip()):
                return "text_field_needs_escaping"
            if kind == "tags" and (not isinstance(v, (list, tuple)) or any((not isinstance(t, str)) or " " in t or not t or "\n" in t for t in v)):
                return "tags_not_a_list_of_words"
            if kind in ("int", "float", "bool") and (isinstance(v, str) or v is None or (isinstance(v, float) and not math.isfinite(v))):
                return "numeric_field_not_a_number"
            if kind == "float" and float(f"{float(v):g}") != float(v):
                return "difficulty_value_beyond_6_digits"
            if kind == "sampleset" and v not in (0, 1, 2, 3):
                return "sample_set_outside_enum"
    if not isinstance(m.background_file_name, str) or '"' in m.background_file_name or "\n" in m.background_file_name:
        return "background_needs_escaping"
    return None


def judge_write(ctx, args, kwargs, result, exc, pre):
    m = args[0]
    try:
        why = write_domain(m)
    except Exception as e:
        ctx.counters["osu.write|domain_gate_failed"] += 1
        return ctx.ood("osu.write", "domain_gate_failed:" + type(e).__name__)
    if why:
        return ctx.ood("osu.write", why)
    mem = mem_den(m)
    keys = int(m.circle_size)
    feat = dict(keys_gt_10=keys > 10, default_labels=all(list(tl.df.index) == list(range(len(tl.df))) for tl in (m.hits, m.holds, m.bpms, m.svs)),
                fractional_times=any(float(r["offset"]) != int(r["offset"]) for r in mem["hits"] + mem["holds"]),
                negative_times=any(float(r["offset"]) < 0 for r in mem["hits"] + mem["holds"]))
    wit = dict(hits=mem["hits"][:30], holds=mem["holds"][:30], bpms=mem["bpms"][:10], svs=mem["svs"][:10], meta={k: v for k, v in mem["meta"].items()})
    if exc is not None:
        return ctx.violate("C01", "osu.write", "raises", f"OsuMap.write raised {type(exc).__name__}: {exc}", dict(wit, tb=core.short_tb(exc)), feat)
    lines = result
    text = "\n".join(map(str, lines))
    wit["text"] = text if len(text) < 5000 else text[:5000] + "..."
    try:
        den = ro.parse_osu(lines)
    except Exception as e:
        return ctx.violate("C01", "osu.write", "wellformed", f"written text cannot be parsed: {type(e).__name__}: {e}", wit, feat)
    if den["problems"]:
        return ctx.violate("C01", "osu.write", "wellformed", f"written text is malformed: {den['problems'][:3]}", wit, feat)
    if den["header"] != "osu file format v14":
        return ctx.violate("C01", "osu.write", "wellformed", f"format header is {den['header']!r}", wit, feat)
    if [s for s in den["order"]] != ro.SECTIONS:
        return ctx.violate("C01", "osu.write", "wellformed", f"sections {den['order']}", wit, feat)
    for ln in den["raw"]["HitObjects"]:
        f = ln.split(",")
        try:
            x, t = int(f[0]), int(f[2])
            int(f[1]); int(f[3]); int(f[4])
            if int(f[3]) & 128:
                int(f[5].split(":")[0])
        except (ValueError, IndexError):
            return ctx.violate("C01", "osu.write", "wellformed", f"hit object line with non-integer fields: {ln!r}", wit, feat)
        if not (0 <= x < 512):
            return ctx.violate("C01", "osu.write", "wellformed", f"x = {x} outside 0..511: {ln!r}", wit, feat)
    for attr, v in den["meta"].items():
        w = mem["meta"][attr]
        if isinstance(w, float) or isinstance(v, float):
            same = rel(float(w), float(v), 1e-9) if attr != "preview_time" else abs(float(w) - float(v)) < 1
        elif attr in ("title", "artist"):
            from unidecode import unidecode

            same = v in (w, unidecode(w).strip(), unidecode(w).replace("\n", " ").strip())
        elif attr == "tags":
            same = list(w) == list(v)
        elif attr in ("preview_time", "audio_lead_in"):
            same = abs(float(w) - float(v)) < 1
        else:
            same = (w == v) or (isinstance(w, (bool, int)) and not isinstance(w, str) and int(w) == v)
        if not same:
            return ctx.violate("C01", "osu.write", "metadata", f"{attr}: memory {w!r}, file {v!r}", wit, dict(feat, field=attr))
    missing = [a for t in ro.META.values() for a, _ in t.values() if a not in den["meta"]]
    if missing:
        return ctx.violate("C01", "osu.write", "metadata", f"fields not written: {missing}", wit, feat)
    if (den["background"] or "") != mem["background"]:
        return ctx.violate("C01", "osu.write", "events", f"background: memory {mem['background']!r}, file {den['background']!r}", wit, feat)
    lt1 = lambda a, b: abs(a - b) < 1
    ws = [dict(offset=t, f=ro.unquote(f), v=int(v)) for t, f, v in mem["samples"]]
    gs = [dict(offset=t, f=ro.unquote(f), v=int(v)) for t, f, v in den["samples"]]
    bad = match_rows(ws, gs, ["offset"], lt1)
    if bad:
        return ctx.violate("C01", "osu.write", "events", f"sample events: {bad}", wit, feat)
    # hold ends (offset + length) move by < 1 ms like every other time
    mh = [dict(r, end=float(r["offset"]) + float(r["length"])) for r in mem["holds"]]
    fh = [dict(r, end=float(r["offset"]) + float(r["length"])) for r in den["holds"]]
    for r in mh + fh:
        r.pop("length")
    exact = lambda a, b: a == b
    for name, w, g, tk, tol, rk in (("hits", mem["hits"], den["hits"], ["offset"], lt1, []), ("holds", mh, fh, ["offset", "end"], lt1, []),
                                    ("bpms", mem["bpms"], den["bpms"], ["offset"], exact, ["bpm"]),
                                    ("svs", mem["svs"], den["svs"], ["offset"], exact, ["multiplier"])):
        skip = ("metronome",) if name == "svs" else ()
        w = [{k: (int(v) if k in NOTE_X[:5] + TP_X + ["column", "metronome"] and not isinstance(v, str) else v) for k, v in r.items()} for r in w]
        bad = match_rows(w, g, tk, tol, rk, skip)
        if bad:
            return ctx.violate("C01", "osu.write", name, f"{name}: {bad} [memory vs file]", wit, feat)
    ctx.held("osu.write", "denotation")
    ctx.state("osu.write.case", (keys, bool(mem["holds"]), bool(mem["svs"]), feat["default_labels"], feat["fractional_times"]))


def install(ctx, read=True, write=True):
    from reamber.osu.OsuMap import OsuMap

    if read:
        patch_method(OsuMap, "read", monitor("osu.read", judge_read))
    if write:
        patch_method(OsuMap, "write", monitor("osu.write", judge_write))
