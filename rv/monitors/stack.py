"""C12 shadow-model monitors on Map.Stacker / StackerLocIndexer / MapSet.Stacker.

Passive form (any caller): before a stack assignment every underlying list is
snapshotted as plain rows; afterwards each list must equal "pre-state with the
assignment applied to its own positional slice" — computed on a copy of the
pre-call stacked frame with the lists' own lengths — and nothing else may have
moved (length, order, class, columns, unselected cells, lists lacking the
column).  The active form (exact per-list model of `col op= v` and
`loc[pred, cols] op= v`) lives in checks/C12.py.
"""
from __future__ import annotations

import math

from rv import core
from rv.install import monitor, patch_method
from rv.monitors.lists import rowdicts, veq
from rv.snapshot import _val


def num_eq(a, b):
    """numeric equality tolerant of int->float drift (1 == 1.0), NaN-aware."""
    if a == "NaN" or b == "NaN":
        return a == b
    try:
        return float(a) == float(b)
    except (TypeError, ValueError):
        return a == b


def snap_lists(lists):
    return [dict(cls=type(tl), cols=[str(c) for c in tl.df.columns], dtypes=[str(t) for t in tl.df.dtypes], rows=rowdicts(tl)) for tl in lists]


def expected_after(pre_snaps, exp_stacked):
    """Per list: rows of pre-state with the columns it has replaced by the
    positional slice of exp_stacked."""
    out = []
    i = 0
    for s in pre_snaps:
        n = len(s["rows"])
        sl = exp_stacked.iloc[i:i + n]
        rows = []
        colvals = {c: sl[c].tolist() for c in s["cols"] if c in sl.columns}
        for k, r in enumerate(s["rows"]):
            rr = dict(r)
            for c, vals in colvals.items():
                rr[c] = _val(vals[k])
            rows.append(rr)
        out.append(rows)
        i += n
    return out


def compare_lists(ctx, mon, lists, pre_snaps, want_rows, wit, feat, clause_prefix=""):
    for li, (tl, s, want) in enumerate(zip(lists, pre_snaps, want_rows)):
        name = s["cls"].__name__
        if type(tl) is not s["cls"]:
            return ctx.violate("C12", mon, "class", f"list {li} ({name}) became {type(tl).__name__}", wit, feat)
        cols = [str(c) for c in tl.df.columns]
        if cols != s["cols"]:
            return ctx.violate("C12", mon, "columns", f"{name}: columns {s['cols']} -> {cols}", wit, feat)
        got = rowdicts(tl)
        if len(got) != len(want):
            return ctx.violate("C12", mon, "length", f"{name}: {len(want)} rows -> {len(got)}", wit, feat)
        for k, (g, w) in enumerate(zip(got, want)):
            for c in w:
                if not num_eq(g.get(c), w[c]):
                    changed = not num_eq(s["rows"][k][c], w[c])
                    return ctx.violate("C12", mon, "selected_cell" if changed else "unselected_cell",
                                       f"{name} row {k} column {c}: expected {w[c]!r}, got {g.get(c)!r} (was {s['rows'][k][c]!r})",
                                       dict(wit, list=name, row=k, column=c), feat)
        if [str(t) for t in tl.df.dtypes] != s["dtypes"]:
            ctx.seen(mon, "dtype_drift_counted")
    return True


def stale(stacker, pre_snaps):
    """The stacked frame no longer mirrors the lists (they were edited outside the stack)."""
    i = 0
    for s in pre_snaps:
        n = len(s["rows"])
        sl = stacker._stacked.iloc[i:i + n]
        if len(sl) != n:
            return True
        for c in s["cols"]:
            if c not in sl.columns:
                return True
            vals = [_val(v) for v in sl[c].tolist()]
            if not all(num_eq(a, r[c]) for a, r in zip(vals, s["rows"])):
                return True
        i += n
    return i != len(stacker._stacked)


class JudgeSet:
    def __init__(self, kind):
        self.kind = kind  # "prop" or "loc"

    def _stacker(self, self_):
        return self_ if self.kind == "prop" else self_.stacker

    def pre(self, ctx, args, kwargs):
        st = self._stacker(args[0])
        snaps = snap_lists(st._unstacked)
        return dict(snaps=snaps, stacked=st._stacked.copy(deep=True), stale=stale(st, snaps))

    def __call__(self, ctx, args, kwargs, result, exc, pre):
        if pre is None:
            return
        mon = "stack.setitem" if self.kind == "prop" else "stack.loc_setitem"
        st = self._stacker(args[0])
        key, value = args[1], args[2]
        if pre["stale"]:
            return ctx.ood(mon, "lists_edited_outside_the_stack")
        feat = dict(kind=self.kind, n_lists=min(len(pre["snaps"]), 3), any_empty=any(not s["rows"] for s in pre["snaps"]))
        wit = dict(key=repr(key)[:200], value=repr(value)[:300], lists=[dict(cls=s["cls"].__name__, rows=s["rows"][:12]) for s in pre["snaps"]])
        exp = pre["stacked"]
        try:
            if self.kind == "prop":
                exp[key] = value
            else:
                exp.loc[key] = value
            sim_exc = None
        except Exception as e:
            sim_exc = e
        if exc is not None:
            if sim_exc is not None:
                return ctx.ood(mon, "assignment_invalid_in_pandas")
            return ctx.violate("C12", mon, "raises", f"stack assignment raised {type(exc).__name__}: {exc}", dict(wit, tb=core.short_tb(exc)), feat)
        if sim_exc is not None:
            return ctx.ood(mon, "assignment_invalid_in_pandas")
        want = expected_after(pre["snaps"], exp)
        if compare_lists(ctx, mon, st._unstacked, pre["snaps"], want, wit, feat) is True:
            ctx.held(mon, "write_through")
            ctx.state("stack.case", (self.kind, tuple(sorted({s["cls"].__name__[:3] for s in pre["snaps"]}))[:3], feat["any_empty"]))


class JudgeMapSetSet:
    def pre(self, ctx, args, kwargs):
        ms = args[0]
        return [snap_lists(s._unstacked) for s in ms.stackers]

    def __call__(self, ctx, args, kwargs, result, exc, pre):
        import pandas as pd

        if pre is None:
            return
        mon = "stack.mapset_setitem"
        ms, key, value = args[0], args[1], args[2]
        feat = dict(kind="mapset", n_maps=len(pre))
        wit = dict(key=repr(key), value=repr(value)[:300])
        if not isinstance(value, pd.DataFrame) or len(value) != len(pre):
            return ctx.ood(mon, "value_not_one_row_per_chart")
        if exc is not None:
            return ctx.violate("C12", mon, "raises", f"mapset stack assignment raised {type(exc).__name__}: {exc}", dict(wit, tb=core.short_tb(exc)), feat)
        for mi, (st, snaps) in enumerate(zip(ms.stackers, pre)):
            row = value.iloc[mi].tolist()
            i = 0
            want = []
            for s in snaps:
                rows = []
                for k, r in enumerate(s["rows"]):
                    rr = dict(r)
                    if key in s["cols"]:
                        rr[key] = _val(row[i + k])
                    rows.append(rr)
                want.append(rows)
                i += len(s["rows"])
            if compare_lists(ctx, mon, st._unstacked, snaps, want, dict(wit, chart=mi), feat) is not True:
                return
        ctx.held(mon, "write_through")


def install(ctx):
    from reamber.base.Map import Map
    from reamber.base.MapSet import MapSet

    patch_method(Map.Stacker, "__setitem__", monitor("stack.setitem", JudgeSet("prop")))
    patch_method(Map.Stacker.StackerLocIndexer, "__setitem__", monitor("stack.loc_setitem", JudgeSet("loc")))
    patch_method(MapSet.Stacker, "__setitem__", monitor("stack.mapset_setitem", JudgeMapSetSet()))
