"""C14: frozen-argument contracts.  A generic wrapper snapshots every chart /
mapset / list reachable from the arguments (values, columns, dtypes, row
labels, metadata) before the call and compares after it."""
from __future__ import annotations

import importlib

from rv import core
from rv.install import monitor, patch_function, patch_method
from rv.snapshot import diff_snapshots, is_map, is_mapset, is_timed_list, snapshot


def snap_args(args, kwargs):
    out = []
    for i, a in enumerate(list(args) + list(kwargs.values())):
        if is_timed_list(a) or is_map(a) or is_mapset(a) or (isinstance(a, (list, tuple)) and a and all(is_timed_list(x) or is_map(x) or is_mapset(x) for x in a)):
            out.append((i, a, snapshot(a)))
    return out


class JudgeFrozen:
    def __init__(self, op):
        self.op = op

    def pre(self, ctx, args, kwargs):
        # only the outermost monitored operation is snapshotted: whatever an inner
        # call does to the arguments is visible in the outer comparison
        ctx.frozen_depth = getattr(ctx, "frozen_depth", 0) + 1
        if ctx.frozen_depth > 1:
            return "nested"
        return snap_args(args, kwargs)

    def __call__(self, ctx, args, kwargs, result, exc, pre):
        ctx.frozen_depth = max(0, getattr(ctx, "frozen_depth", 1) - 1)
        if pre == "nested":
            return ctx.seen("frozen", "nested_calls_covered_by_outer")
        if not pre:
            return
        for i, obj, snap in pre:
            d = diff_snapshots(snap, snapshot(obj))
            if d:
                return ctx.violate("C14", "frozen", "argument_modified", f"{self.op}: argument {i} ({type(obj).__name__}) changed: {d}",
                                   dict(op=self.op, diff=d, raised=repr(exc)[:200] if exc else None), dict(op=self.op))
        ctx.held("frozen", self.op)
        ctx.state("frozen.op", self.op)


LIST_METHODS = ["__getitem__", "sorted", "append", "after", "before", "between", "first_offset", "last_offset", "first_last_offset",
                "move_start_to", "move_end_to", "time_diff", "deepcopy", "describe", "to_numpy", "__len__"]
BPM_METHODS = ["current_bpm", "snap_offsets", "to_timing_map", "ave_bpm"]
MAP_METHODS = ["rate", "deepcopy", "describe", "stack", "metadata"]


def install(ctx):
    from reamber.algorithms.pattern.combos.PtnCombo import PtnCombo
    from reamber.algorithms.pattern.Pattern import Pattern
    from reamber.base.lists.BpmList import BpmList
    from reamber.base.lists.notes.HoldList import HoldList
    from reamber.base.lists.TimedList import TimedList
    from reamber.base.Map import Map
    from reamber.base.MapSet import MapSet
    from reamber.bms.BMSMap import BMSMap
    from reamber.o2jam.O2JMap import O2JMap
    from reamber.osu.OsuMap import OsuMap
    from reamber.quaver.QuaMap import QuaMap
    from reamber.sm.SMMapSet import SMMapSet
    from rv.monitors.convert import CONVERTERS

    def pm(cls, name, label=None):
        if name in cls.__dict__:
            patch_method(cls, name, monitor("frozen", JudgeFrozen(label or f"{cls.__name__}.{name}")))

    for m in LIST_METHODS:
        pm(TimedList, m)
        pm(HoldList, m)
    for m in BPM_METHODS:
        pm(BpmList, m)
    for cls in (Map, MapSet, OsuMap, SMMapSet, O2JMap):
        for m in MAP_METHODS:
            pm(cls, m)
    for cls in (OsuMap, QuaMap, SMMapSet, BMSMap):
        pm(cls, "write")
        pm(cls, "write_file")
    for name in CONVERTERS:
        c = getattr(importlib.import_module("reamber.algorithms.convert." + name), name)
        pm(c, "convert", name + ".convert")
        pm(c, "convert_merge", name + ".convert_merge")
    pm(Pattern, "from_note_lists")
    import sys
    for modname, fn in (("reamber.algorithms.generate.full_ln", "full_ln"), ("reamber.algorithms.generate.sv_normalize", "sv_normalize"),
                        ("reamber.algorithms.analysis.scroll_speed", "scroll_speed"), ("reamber.algorithms.utils.dominant_bpm", "dominant_bpm"),
                        ("reamber.algorithms.osu.hitsound_copy", "hitsound_copy")):
        importlib.import_module(modname)
        patch_function(sys.modules[modname], fn, monitor("frozen", JudgeFrozen(fn)))
