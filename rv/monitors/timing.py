"""Monitors on the timing engine (C10) and on reseating (C11).

Passive R-monitors: every call of TimingMap.offsets / snaps / beats,
Snapper.snap, BpmList.to_timing_map, TimingMap.from_bpm_changes_snap and
reseat_bpm_changes_snap — whoever makes it — is compared with the exact
Fraction model of rv.ref.timing.
"""
from __future__ import annotations

import sys
from fractions import Fraction as F

from rv import core
from rv.install import monitor, patch_function, patch_method
from rv.ref import timing as rt

GRID_EPS = F(1, 10**7)  # beats: "on the grid" up to float noise
MS_ABS = 1e-6
MS_REL = 1e-9


def ms_close(a, b):
    return rt.close(a, b, MS_ABS, MS_REL)


# ---------------------------------------------------------------------------
# reconstructing the exact model from a live TimingMap

def truth_of(tm, max_den=96):
    """RefTiming of a TimingMap: the generator's exact truth if the workload
    attached one, else reconstructed from the stored (offset, bpm, metronome)
    list.  Returns (truth, None) or (None, out_of_domain_reason)."""
    t = getattr(tm, "_rv_truth", None)
    if t is not None:
        return t, None
    bco = sorted(tm.bpm_changes_offset, key=lambda b: b.offset)
    if not bco:
        return None, "no_changes"
    changes = []
    anchors = []
    m, b = 0, F(0)
    prev = None
    for c in bco:
        if not (c.bpm > 0) or not (c.metronome > 0):
            return None, "non_positive_bpm_or_metronome"
        if prev is not None:
            met0 = F(prev.metronome)
            d = (F(c.offset) - F(prev.offset)) * F(prev.bpm) / 60000
            if d <= 0:
                return None, "coincident_changes"
            total = b + d
            q = int(total // met0)
            r = total - q * met0
            cands, dist = rt.nearest_farey(r, max_den)
            if dist > GRID_EPS * max(1, abs(total)):
                return None, "change_off_grid"
            r = min(cands)
            if r >= met0:
                q += 1
                r -= met0
            m, b = m + q, r
            if F(c.metronome) != met0 and b != 0:
                return None, "metronome_change_mid_measure"
        changes.append((m, b, F(c.bpm), F(c.metronome)))
        anchors.append(F(c.offset))
        prev = c
    return rt.RefTiming(anchors[0], changes, anchors=anchors), None


def snap_pos(s):
    """(measure, beat) of a Snap normalised so that 0 <= beat < metronome."""
    m = int(round(float(s.measure)))
    b = F(s.beat)
    if s.metronome is not None:
        met = F(s.metronome)
        q = b // met
        m += int(q)
        b -= q * met
    return m, b


# ---------------------------------------------------------------------------
# C10 monitors

def judge_offsets(ctx, args, kwargs, result, exc, pre):
    tm = args[0]
    snaps = list(args[1] if len(args) > 1 else kwargs["snaps"])
    truth, why = truth_of(tm)
    if truth is None:
        return ctx.ood("tm.offsets", why)
    exp = []
    for s in snaps:
        try:
            m, b = snap_pos(s)
            exp.append(truth.ms_of_pos(m, b))
        except ValueError:
            return ctx.ood("tm.offsets", "query_before_first_change")
    feat = dict(n_changes=len(truth.ch), n_queries=len(snaps))
    if exc is not None:
        return ctx.violate("C10", "tm.offsets", "raises", f"offsets() raised {type(exc).__name__}: {exc}",
                           dict(changes=truth.ch, queries=[snap_pos(s) for s in snaps], tb=core.short_tb(exc)), feat)
    if len(result) != len(snaps):
        return ctx.violate("C10", "tm.offsets", "length", f"{len(result)} results for {len(snaps)} queries", None, feat)
    bad = [(i, float(e), float(r)) for i, (e, r) in enumerate(zip(exp, result)) if not ms_close(e, r)]
    if bad:
        # is it a permutation problem (right multiset, wrong order)?
        perm = sorted(float(e) for e in exp)
        got = sorted(float(r) for r in result)
        clause = "query_order" if all(ms_close(a, b) for a, b in zip(perm, got)) else "integration"
        return ctx.violate("C10", "tm.offsets", clause,
                           f"query {bad[0][0]}: expected {bad[0][1]} ms, got {bad[0][2]} ms ({len(bad)} of {len(exp)} wrong)",
                           dict(changes=truth.ch, anchors=truth.ms, queries=[snap_pos(s) for s in snaps],
                                expected=exp, got=list(result)), feat)
    ctx.held("tm.offsets", "integration", len(snaps))
    ctx.state("tm.offsets.segments_hit", len({truth.seg_of_pos(*snap_pos(s)) for s in snaps}))
    if len(snaps) > 1 and any(exp[i] > exp[i + 1] for i in range(len(exp) - 1)):
        ctx.held("tm.offsets", "query_order_unsorted_input")


def snapper_info(snapper):
    div = getattr(snapper, "_rv_divisions", rt.DEFAULT_DIVISIONS)
    return tuple(int(d) for d in div), int(max(snapper.den))


def expected_positions(truth, t, div, max_den):
    """What converting time t to a position may yield, as alternatives
    (kind, absolute beat wanted, tolerance in beats).

    The engine's grid is anchored at the active tempo change: the position is
    the change's own position plus a snapped distance.  A time is "on the
    grid" when that distance is (up to float noise) a fraction the snapper
    admits; it must then come back exactly.  Otherwise the result has to lie
    within the distance to the nearest declared division.  Within 1e-6 ms of
    a change either adjacent segment may be the active one."""
    alts = []
    i = truth.seg_of_ms(t)
    segs = [i]
    if i > 0 and ms_close(truth.ms[i], t):
        segs.append(i - 1)
    if i + 1 < len(truth.ms) and ms_close(truth.ms[i + 1], t):
        segs.append(i + 1)
    for j in segs:
        m0, b0, v0, t0 = truth.ch[j]
        rel = (F(t) - truth.ms[j]) * v0 / 60000
        if rel < 0:
            rel = F(0)
        fr = rel - (rel // 1)
        cands, dist = rt.nearest_farey(fr, max_den)
        if dist <= GRID_EPS:
            alts.append(("on", truth.abs[j] + rel + (min(cands) - fr), F(0)))
        else:
            _, dd = rt.nearest_on_divisions(fr, div)
            alts.append(("off", truth.abs[j] + rel, dd + GRID_EPS))
    return alts


def judge_snaps(ctx, args, kwargs, result, exc, pre):
    tm = args[0]
    offsets = list(args[1] if len(args) > 1 else kwargs["offsets"])
    snapper = args[2] if len(args) > 2 else kwargs["snapper"]
    if not offsets:
        return ctx.ood("tm.snaps", "empty_query")
    div, max_den = snapper_info(snapper)
    truth, why = truth_of(tm, max_den)
    if truth is None:
        return ctx.ood("tm.snaps", why)
    if any(F(t) < truth.ms[0] for t in offsets):
        return ctx.ood("tm.snaps", "query_before_first_change")
    feat = dict(n_changes=len(truth.ch), n_queries=len(offsets))
    if exc is not None:
        return ctx.violate("C10", "tm.snaps", "raises", f"snaps() raised {type(exc).__name__}: {exc}",
                           dict(changes=truth.ch, anchors=truth.ms, queries=offsets, tb=core.short_tb(exc)), feat)
    if len(result) != len(offsets):
        return ctx.violate("C10", "tm.snaps", "length", f"{len(result)} results for {len(offsets)} queries", None, feat)
    n_on = n_off = 0
    for i, (t, s) in enumerate(zip(offsets, result)):
        gm, gb = snap_pos(s)
        try:
            a_got = truth.abs_of_pos(gm, gb)
        except ValueError:
            a_got = None
        alts = expected_positions(truth, t, div, max_den)
        ok = a_got is not None and any(abs(a_got - w) <= tol for _, w, tol in alts)
        kind = alts[0][0]
        if not ok:
            clause = "on_grid_exact" if kind == "on" else "off_grid_within_grid_step"
            return ctx.violate("C10", "tm.snaps", clause,
                               f"offset {t} ms is at beat {float(alts[0][1])} ({kind} grid, tolerance {float(alts[0][2])}); "
                               f"snaps() gave measure {gm} beat {gb} = beat {None if a_got is None else float(a_got)}",
                               dict(changes=truth.ch, anchors=truth.ms, query=t, queries=offsets, got=(gm, gb), divisions=div), feat)
        if kind == "on":
            n_on += 1
        else:
            n_off += 1
    if n_on:
        ctx.held("tm.snaps", "on_grid_exact", n_on)
    if n_off:
        ctx.held("tm.snaps", "off_grid_within_grid_step", n_off)


def judge_beats(ctx, args, kwargs, result, exc, pre):
    tm = args[0]
    offsets = [float(x) for x in (args[1] if len(args) > 1 else kwargs["offsets"])]
    snapper = args[2] if len(args) > 2 else kwargs["snapper"]
    if not offsets:
        return ctx.ood("tm.beats", "empty_query")
    div, max_den = snapper_info(snapper)
    truth, why = truth_of(tm, max_den)
    if truth is None:
        return ctx.ood("tm.beats", why)
    if len({c[3] for c in truth.ch}) != 1:
        return ctx.ood("tm.beats", "metronome_not_constant")
    if any(F(t) < truth.ms[0] for t in offsets):
        return ctx.ood("tm.beats", "query_before_first_change")
    feat = dict(n_changes=len(truth.ch), n_queries=len(offsets))
    if exc is not None:
        return ctx.violate("C10", "tm.beats", "raises", f"beats() raised {type(exc).__name__}: {exc}",
                           dict(changes=truth.ch, anchors=truth.ms, queries=offsets, tb=core.short_tb(exc)), feat)
    if len(result) != len(offsets):
        return ctx.violate("C10", "tm.beats", "length", f"{len(result)} results for {len(offsets)} queries", None, feat)
    i0 = min(range(len(offsets)), key=lambda i: offsets[i])
    alts0 = expected_positions(truth, offsets[i0], div, max_den)
    for i, (t, g) in enumerate(zip(offsets, result)):
        d_g = F(g) - F(result[i0])
        alts = expected_positions(truth, t, div, max_den)
        ok = any(abs((w - w0) - d_g) <= tol + tol0 for _, w, tol in alts for _, w0, tol0 in alts0)
        if not ok:
            return ctx.violate("C10", "tm.beats", "beat_distance",
                               f"offsets {offsets[i0]} -> {t} ms are {float(alts[0][1] - alts0[0][1])} beats apart, beats() says {float(d_g)}",
                               dict(changes=truth.ch, anchors=truth.ms, queries=offsets, got=list(result)), feat)
    ctx.held("tm.beats", "beat_distance", len(offsets))


def judge_snapper(ctx, args, kwargs, result, exc, pre):
    snapper = args[0]
    x = args[1] if len(args) > 1 else kwargs["beat"]
    try:
        xf = F(float(x))
    except Exception:
        return ctx.ood("snapper.snap", "not_a_number")
    if xf < 0:
        return ctx.ood("snapper.snap", "negative")
    div, max_den = snapper_info(snapper)
    if exc is not None:
        return ctx.violate("C10", "snapper.snap", "raises", f"snap({x}) raised {type(exc).__name__}: {exc}", dict(x=x), {})
    r = F(result)
    q = xf // 1
    fr = r - q
    wit = dict(x=float(x), result=str(r), divisions=div)
    if not (0 <= fr <= 1) or fr.denominator > max_den:
        return ctx.violate("C10", "snapper.snap", "allowed_fraction",
                           f"snap({float(x)}) = {r}: not a fraction with denominator <= {max_den} in the same beat", wit, {})
    cf, df_ = rt.nearest_farey(xf - q, max_den)
    cd, dd = rt.nearest_on_divisions(xf - q, div)
    dist = abs(fr - (xf - q))
    eps = F(1, 10**12)
    if not (dist <= df_ + eps or (dist <= dd + eps and rt.on_divisions(fr, div))):
        return ctx.violate("C10", "snapper.snap", "nearest",
                           f"snap({float(x)}) = {r} at distance {float(dist)}; nearest allowed fraction is at {float(df_)} ({sorted(cf)[0] + q})", wit, {})
    again = F(snapper.snap(float(r)))
    if again != r:
        return ctx.violate("C10", "snapper.snap", "idempotent", f"snap({float(x)}) = {r} but snap({float(r)}) = {again}", wit, {})
    ctx.held("snapper.snap", "nearest_and_idempotent")


def judge_to_timing_map(ctx, args, kwargs, result, exc, pre):
    bl = args[0]
    rows = sorted((float(o), float(b), float(m)) for o, b, m in zip(bl.offset, bl.bpm, bl.metronome))
    if not rows:
        return ctx.ood("bpmlist.to_timing_map", "empty")
    if exc is not None:
        return ctx.violate("C10", "bpmlist.to_timing_map", "raises", f"raised {type(exc).__name__}: {exc}", dict(rows=rows), {})
    got = [(float(c.offset), float(c.bpm), float(c.metronome)) for c in result.bpm_changes_offset]
    if got != rows:
        return ctx.violate("C10", "bpmlist.to_timing_map", "same_changes_sorted",
                           f"tempo list {rows[:4]} became timing map {got[:4]}", dict(rows=rows, got=got), {})
    ctx.held("bpmlist.to_timing_map", "same_changes_sorted")


def changes_of_bcs(bcs_s):
    out = []
    for c in bcs_s:
        m, b = snap_pos(c.snap)
        out.append((m, b, F(c.bpm), F(c.metronome)))
    return out


def in_domain_changes(ch):
    ch = sorted(ch, key=lambda c: (c[0], c[1]))
    if not ch or ch[0][0] != 0 or ch[0][1] != 0:
        return "first_not_at_0_0"
    if any(c[2] <= 0 or c[3] <= 0 for c in ch):
        return "non_positive_bpm_or_metronome"
    for a, b in zip(ch, ch[1:]):
        if (a[0], a[1]) == (b[0], b[1]):
            return "coincident_changes"
        if a[3] != b[3] and b[1] != 0:
            return "metronome_change_mid_measure"
    return None


def judge_from_snap(ctx, args, kwargs, result, exc, pre):
    initial = args[0] if len(args) > 0 else kwargs["initial_offset"]
    bcs_s = args[1] if len(args) > 1 else kwargs.get("bcs_s", kwargs.get("bpm_changes_snap"))
    reseat = args[2] if len(args) > 2 else kwargs.get("reseat", True)
    ch = changes_of_bcs(bcs_s)
    why = in_domain_changes(ch)
    if why:
        return ctx.ood("tm.from_snap", why)
    if reseat and any(c[1] != 0 for c in ch):
        return judge_reseat_common(ctx, "tm.from_snap_reseat", ch, exc,
                                   None if exc is not None else result.bpm_changes_offset, float(initial), True)
    truth = rt.RefTiming(F(float(initial)), ch)
    feat = dict(n_changes=len(ch))
    if exc is not None:
        return ctx.violate("C10", "tm.from_snap", "raises", f"from_bpm_changes_snap raised {type(exc).__name__}: {exc}",
                           dict(initial=initial, changes=ch, tb=core.short_tb(exc)), feat)
    got = [(float(c.offset), float(c.bpm), float(c.metronome)) for c in result.bpm_changes_offset]
    want = [(float(ms), float(c[2]), float(c[3])) for ms, c in zip(truth.ms, truth.ch)]
    if len(got) != len(want) or any(not ms_close(g[0], w[0]) or g[1:] != w[1:] for g, w in zip(got, want)):
        return ctx.violate("C10", "tm.from_snap", "integration",
                           f"change offsets {got[:5]} differ from exact integration {want[:5]}",
                           dict(initial=initial, changes=ch, got=got, want=want), feat)
    ctx.held("tm.from_snap", "integration", len(ch))


# ---------------------------------------------------------------------------
# C11

EXT_THRESHOLD = F(1, 1000)


def reseat_features(ch):
    """Mechanism features of a reseat input (known-finding matching, evidence).

    The algorithm measures every original interval from a measure line (the
    previous point has just been seated), so its two "extend" branches are
    entered iff the interval length, in measures or in beats, has a remainder
    in (0, extend_threshold].  Remainders below 1e-9 are float noise of a
    whole number and are not the feature."""
    T = rt.RefTiming(0, ch)
    near = False
    for i in range(len(T.ch) - 1):
        m0, b0, v0, t0 = T.ch[i]
        beats = T.abs[i + 1] - T.abs[i]
        mr = (beats / t0) % 1
        br = beats % 1
        lo, hi = F(1, 10**9), EXT_THRESHOLD * (1 + F(1, 10**6))
        if lo < mr <= hi or lo < br <= hi:
            near = True
    return dict(near_line_remainder=near, n_changes=len(ch),
                seated=all(c[1] == 0 for c in ch),
                const_metronome=len({c[3] for c in ch}) == 1,
                pow2_metronome=all(c[3] in (1, 2, 4, 8) for c in ch))


def same_timeline(pa, pb):
    """Step functions [(ms, bpm)] equal as 'which bpm is active when':
    compared at the midpoints of the union of breakpoints (1e-6 ms apart at
    least), bpm relative 1e-9."""
    pa = sorted(pa, key=lambda p: p[0])
    pb = sorted(pb, key=lambda p: p[0])
    if not pa or not pb or not ms_close(pa[0][0], pb[0][0]):
        return False
    cuts = sorted({p[0] for p in pa} | {p[0] for p in pb})
    uniq = []
    for c in cuts:
        if not uniq or not ms_close(uniq[-1], c):
            uniq.append(c)
    probes = [(a + b) / 2 for a, b in zip(uniq, uniq[1:])] + [uniq[-1] + 1000]

    def at(pts, t):
        v = pts[0][1]
        for ms, b in pts:
            if ms <= t:
                v = b
        return v

    return all(rt.close(at(pa, t), at(pb, t), 0, 1e-9) for t in probes)


def judge_reseat_common(ctx, mon, ch_in, exc, out, initial, out_is_offsets):
    """ch_in: exact input changes.  out: list of BpmChangeSnap (positions) or,
    when out_is_offsets, BpmChangeOffset (ms) of the reseated timing map."""
    Tin = rt.RefTiming(F(0), ch_in)
    feat = reseat_features(ch_in)
    wit = dict(changes_in=ch_in, initial=initial)
    if exc is not None:
        return ctx.violate("C11", mon, "raises", f"reseat raised {type(exc).__name__}: {exc}",
                           dict(wit, tb=core.short_tb(exc)), feat)
    if out_is_offsets:
        # the timing map stores ms; positions are implied by whole measures of
        # each segment: check them through the ms values directly.
        pts = [(F(float(c.offset)) - F(float(initial)), F(float(c.bpm)), F(float(c.metronome))) for c in out]
        pts.sort(key=lambda p: p[0])
        out_ms = [p[0] for p in pts]
        # (1) measure lines: every segment lasts a whole number of its own measures
        for (t0, v0, m0), (t1, _, _) in zip(pts, pts[1:]):
            n = (t1 - t0) * v0 / 60000 / m0
            if abs(n - round(n)) > F(1, 10**6) or round(n) < 1:
                return ctx.violate("C11", mon, "on_measure_lines",
                                   f"segment from {float(t0)} ms at {float(v0)} bpm lasts {float(n)} measures (not a whole number >= 1)",
                                   dict(wit, out=pts), feat)
        out_bpm = [p[1] for p in pts]
    else:
        ch_out = changes_of_bcs(out)
        wit["changes_out"] = ch_out
        ks = [(c[0], c[1]) for c in ch_out]
        if any(c[1] != 0 for c in ch_out) or any(a >= b for a, b in zip(ks, ks[1:])):
            return ctx.violate("C11", mon, "on_measure_lines",
                               f"reseated points not on strictly increasing measure lines: {[(m, str(b)) for m, b in ks][:8]}", wit, feat)
        if in_domain_changes(ch_out):
            return ctx.violate("C11", mon, "on_measure_lines", f"reseated list malformed: {in_domain_changes(ch_out)}", wit, feat)
        Tout = rt.RefTiming(F(0), ch_out)
        out_ms = Tout.ms
        out_bpm = [c[2] for c in Tout.ch]
    wit["in_ms"] = Tin.ms
    wit["out_ms"] = out_ms
    # (2) every original time is still a tempo point
    for i, t in enumerate(Tin.ms):
        js = [j for j, u in enumerate(out_ms) if ms_close(u, t)]
        if not js:
            return ctx.violate("C11", mon, "original_time_kept",
                               f"original change {i} at {float(t)} ms (relative) has no tempo point; reseated times {[float(u) for u in out_ms][:10]}",
                               wit, feat)
        # (3) original bpm kept where >= 1 whole measure follows
        m0, b0, v0, t0_ = Tin.ch[i]
        whole = None
        if i + 1 < len(Tin.ch):
            whole = (Tin.abs[i + 1] - Tin.abs[i]) / t0_ >= 1
        else:
            whole = True
        if whole and not rt.close(out_bpm[js[-1]], v0, 0, 1e-9):
            return ctx.violate("C11", mon, "original_bpm_kept",
                               f"change {i} ({float(v0)} bpm) is followed by >= 1 whole measure but the point at its time has bpm {float(out_bpm[js[-1]])}",
                               wit, feat)
    # (4) at most one extra point per original interval
    for i in range(len(Tin.ms)):
        lo = Tin.ms[i]
        hi = Tin.ms[i + 1] if i + 1 < len(Tin.ms) else None
        inside = [u for u in out_ms if u > lo and not ms_close(u, lo) and (hi is None or (u < hi and not ms_close(u, hi)))]
        if len(inside) > (1 if hi is not None else 0):
            return ctx.violate("C11", mon, "at_most_one_extra",
                               f"{len(inside)} inserted points between original changes {i} and {i + 1}", wit, feat)
    # (5) seated input: timeline unchanged
    if feat["seated"]:
        a = list(zip(Tin.ms, [c[2] for c in Tin.ch]))
        b = list(zip(out_ms, out_bpm))
        if not same_timeline(a, b):
            return ctx.violate("C11", mon, "seated_unchanged",
                               f"seated list changed: {[(float(x), float(y)) for x, y in a][:6]} -> {[(float(x), float(y)) for x, y in b][:6]}", wit, feat)
        ctx.held(mon, "seated_unchanged")
    ctx.held(mon, "reseat_invariants")
    ctx.state("c11.input_shape", (min(len(ch_in), 6), feat["seated"], feat["near_line_remainder"], feat["const_metronome"]))


def judge_reseat_fn(ctx, args, kwargs, result, exc, pre):
    bcs_s = args[0] if args else kwargs["bcs_s"]
    thr = args[1] if len(args) > 1 else kwargs.get("extend_threshold", 0.001)
    ch = pre if pre is not None else changes_of_bcs(bcs_s)
    why = in_domain_changes(ch)
    if why:
        return ctx.ood("reseat", why)
    if thr != 0.001:
        return ctx.ood("reseat", "non_default_threshold")
    judge_reseat_common(ctx, "reseat", ch, exc, result, 0.0, False)
    # the list the caller passed must still denote the timeline it denoted (its entries in any order): a caller reseating,
    # looking up or reseating again from the same list would otherwise start from changes that are no longer at their times
    try:
        after = changes_of_bcs(bcs_s)
    except Exception:
        after = None
    if after is None or sorted(after) != sorted(ch):
        ctx.violate("C11", "reseat", "caller_list_changed",
                    f"the tempo list passed in denotes other changes after the call: before {[(m, str(b), float(v)) for m, b, v, _ in sorted(ch)][:6]}, "
                    f"after {None if after is None else [(m, str(b), float(v)) for m, b, v, _ in sorted(after)][:6]}",
                    dict(changes=[(m, str(b), float(v), float(n)) for m, b, v, n in ch]), dict(caller_list_changed=True))
    else:
        ctx.held("reseat", "caller_list_unchanged")


def _reseat_pre(ctx, args, kwargs):
    bcs_s = args[0] if args else kwargs["bcs_s"]
    return changes_of_bcs(bcs_s)


judge_reseat_fn.pre = _reseat_pre


def judge_tm_reseat(ctx, args, kwargs, result, exc, pre):
    tm = args[0]
    truth, why = pre if pre is not None else (None, "pre_failed")
    if truth is None:
        return ctx.ood("tm.reseat", why)
    ch = truth.ch
    if in_domain_changes(ch):
        return ctx.ood("tm.reseat", in_domain_changes(ch))
    judge_reseat_common(ctx, "tm.reseat", ch, exc,
                        None if exc is not None else result.bpm_changes_offset,
                        float(truth.ms[0]), True)


def _tm_reseat_pre(ctx, args, kwargs):
    return truth_of(args[0])


judge_tm_reseat.pre = _tm_reseat_pre


# ---------------------------------------------------------------------------

def install(ctx, c10=True, c11=True):
    import importlib

    from reamber.algorithms.timing.TimingMap import TimingMap
    from reamber.base.lists.BpmList import BpmList
    import reamber.bms.BMSMap  # noqa: F401  (binds the module-level functions by name)
    import reamber.sm.SMMap  # noqa: F401

    Snapper = importlib.import_module("reamber.algorithms.timing.utils.Snapper").Snapper
    reseat_mod = importlib.import_module("reamber.algorithms.timing.utils.reseat_bpm_changes_snap")
    from_snap_mod = importlib.import_module("reamber.algorithms.timing.utils.from_bpm_changes_snap")

    def make_init(orig):
        def __init__(self, divisions=rt.DEFAULT_DIVISIONS):
            try:
                self._rv_divisions = tuple(int(d) for d in divisions)
            except Exception:
                pass
            orig(self, divisions)
        return __init__

    patch_method(Snapper, "__init__", make_init)
    if c10:
        patch_method(TimingMap, "offsets", monitor("tm.offsets", judge_offsets))
        patch_method(TimingMap, "snaps", monitor("tm.snaps", judge_snaps))
        patch_method(TimingMap, "beats", monitor("tm.beats", judge_beats))
        patch_method(Snapper, "snap", monitor("snapper.snap", judge_snapper))
        patch_method(BpmList, "to_timing_map", monitor("bpmlist.to_timing_map", judge_to_timing_map))
    if c10 or c11:
        # the staticmethod TimingMap.from_bpm_changes_snap and BMSMap's module-level use both
        # resolve to this function through a module global, so one rebinding covers all callers
        patch_function(from_snap_mod, "from_bpm_changes_snap", monitor("tm.from_snap", judge_from_snap))
    if c11:
        patch_function(reseat_mod, "reseat_bpm_changes_snap", monitor("reseat", judge_reseat_fn))
        patch_method(TimingMap, "reseat", monitor("tm.reseat", judge_tm_reseat))
