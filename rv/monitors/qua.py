"""R-monitors on QuaMap.read / QuaMap.write (C06).  PyYAML is the trusted YAML
parser on both sides; what is re-implemented is the mapping document tree <-> chart."""
from __future__ import annotations

import math

import yaml

from rv import core
from rv.install import monitor, patch_method
from rv.monitors.osu import match_rows
from rv.snapshot import rows, schema_problems

META = {  # yaml key -> (attribute, kinds accepted on write)
    "AudioFile": ("audio_file", (str,)), "SongPreviewTime": ("song_preview_time", (int, float)), "BackgroundFile": ("background_file", (str,)),
    "BannerFile": ("banner_file", (str,)), "Genre": ("genre", (str,)), "BPMDoesNotAffectScrollVelocity": ("bpm_does_not_affect_scroll_velocity", (bool,)),
    "InitialScrollVelocity": ("initial_scroll_velocity", None), "HasScratchKey": ("has_scratch_key", (bool,)), "MapId": ("map_id", (int,)),
    "MapSetId": ("map_set_id", (int,)), "Mode": ("mode", (str,)), "Title": ("title", (str,)), "Artist": ("artist", (str,)), "Source": ("source", (str,)),
    "Tags": ("tags", (str,)), "Creator": ("creator", (str,)), "DifficultyName": ("difficulty_name", (str,)), "Description": ("description", (str,)),
    "EditorLayers": ("editor_layers", (list,)), "CustomAudioSamples": ("custom_audio_samples", (list,)), "SoundEffects": ("sound_effects", (list,)),
}
SECTIONS = ("HitObjects", "TimingPoints", "SliderVelocities")
HIT_KEYS = {"StartTime", "Lane", "EndTime", "KeySounds"}


def isnum(x):
    return isinstance(x, (int, float)) and not isinstance(x, bool) and math.isfinite(x)


def tree_den(doc):
    """Denotation of a .qua document tree; alternatives where the format default is in dispute."""
    hits, holds = [], []
    for o in doc["HitObjects"]:
        t = o.get("StartTime", 0)
        lane = o.get("Lane", 1)
        ks = o.get("KeySounds", [])
        ks = [] if ks is None else ks
        if "EndTime" in o:
            holds.append(dict(offset=float(t), column=lane - 1, length=float(o["EndTime"] - t), keysounds=repr(ks)))
        else:
            hits.append(dict(offset=float(t), column=lane - 1, keysounds=repr(ks)))
    bpms = [dict(offset=float(b.get("StartTime", 0)), bpm=b.get("Bpm")) for b in doc["TimingPoints"]]
    svs = [dict(offset=float(s.get("StartTime", 0)), multiplier=s.get("Multiplier")) for s in doc["SliderVelocities"]]
    return dict(hits=hits, holds=holds, bpms=bpms, svs=svs)


def mem_den(m):
    ks = lambda v: repr([] if (v == "NaN" or v is None) else (eval(v) if isinstance(v, str) and v.startswith("[") else v))
    d = dict(
        hits=[dict(offset=float(o), column=int(c), keysounds=ks(k)) for o, c, k in rows(m.hits, ["offset", "column", "keysounds"])],
        holds=[dict(offset=float(o), column=int(c), length=float(ln), keysounds=ks(k)) for o, c, ln, k in rows(m.holds, ["offset", "column", "length", "keysounds"])],
        bpms=[dict(offset=float(o), bpm=float(b)) for o, b in rows(m.bpms, ["offset", "bpm"])],
        svs=[dict(offset=float(o), multiplier=float(x)) for o, x in rows(m.svs, ["offset", "multiplier"])],
    )
    return d


def read_domain(doc):
    if not isinstance(doc, dict):
        return "not_a_mapping"
    for s in SECTIONS:
        if s not in doc or not isinstance(doc[s], list):
            return "missing_section"
        if any(not isinstance(o, dict) for o in doc[s]):
            return "section_entry_not_a_mapping"
    for o in doc["HitObjects"]:
        if any(k not in HIT_KEYS for k in o):
            return "unknown_hit_object_key"
        if not all(isnum(o[k]) for k in ("StartTime", "Lane", "EndTime") if k in o):
            return "non_numeric_field"
        if "Lane" not in o:
            return "omitted_lane"
        if "KeySounds" in o and not isinstance(o["KeySounds"], (list, type(None))):
            return "keysounds_not_a_list"
    for s, val in (("TimingPoints", "Bpm"), ("SliderVelocities", "Multiplier")):
        for o in doc[s]:
            if any(k not in ("StartTime", val) for k in o):
                return "unknown_timing_key"
            if not all(isnum(v) for v in o.values()):
                return "non_numeric_field"
    if "Tags" in doc and not isinstance(doc["Tags"], str):
        return "tags_not_a_string"
    return None


def judge_read(ctx, args, kwargs, result, exc, pre):
    lines = args[0] if args else kwargs["lines"]
    text = lines if isinstance(lines, str) else "\n".join(lines) + "\n"
    try:
        doc = yaml.safe_load(text)
    except Exception:
        return ctx.ood("qua.read", "not_yaml")
    why = read_domain(doc)
    if why:
        return ctx.ood("qua.read", why)
    ho = doc["HitObjects"]
    holds_ = [o for o in ho if "EndTime" in o]
    hits_ = [o for o in ho if "EndTime" not in o]
    feat = dict(
        keysounds_omitted=any("KeySounds" not in o or o["KeySounds"] is None for o in ho),
        no_hold_has_start_time=bool(holds_) and not any("StartTime" in o for o in holds_),
        no_hit_has_start_time=bool(hits_) and not any("StartTime" in o for o in hits_),
        value_key_omitted=any("Bpm" not in b for b in doc["TimingPoints"]) or any("Multiplier" not in s for s in doc["SliderVelocities"]),
        empty_timing_sections=not doc["TimingPoints"] or not doc["SliderVelocities"],
    )
    wit = dict(text=text if len(text) < 5000 else text[:5000] + "...")
    if exc is not None:
        return ctx.violate("C06", "qua.read", "raises", f"QuaMap.read raised {type(exc).__name__}: {exc}", dict(wit, tb=core.short_tb(exc)), feat)
    m = result
    for name in ("hits", "holds", "bpms", "svs"):
        probs = schema_problems(m.objs[name])
        if probs:
            return ctx.violate("C06", "qua.read", "schema", f"{name}: {probs}", wit, dict(feat, list=name))
    want = tree_den(doc)
    got = mem_den(m)
    exact = lambda a, b: a == b
    for name, tk in (("hits", ["offset"]), ("holds", ["offset", "length"])):
        bad = match_rows(want[name], got[name], tk, exact)
        if bad:
            return ctx.violate("C06", "qua.read", name, f"{name}: {bad}", wit, feat)
    for name, val, defaults in (("bpms", "bpm", (120.0, 0.0)), ("svs", "multiplier", (1.0, 0.0))):
        # omitted value key: both defaults in circulation are accepted
        w = sorted(want[name], key=lambda r: r["offset"])
        g = sorted(got[name], key=lambda r: r["offset"])
        if len(w) != len(g):
            return ctx.violate("C06", "qua.read", name, f"{name}: document has {len(w)}, read gave {len(g)}", wit, feat)
        # multiset by offset then value
        from collections import Counter

        explicit_w = Counter((r["offset"], float(r[val])) for r in w if r[val] is not None)
        cg = Counter((r["offset"], float(r[val])) for r in g)
        rest = cg - explicit_w
        if sum((explicit_w - cg).values()):
            return ctx.violate("C06", "qua.read", name, f"{name}: declared {list((explicit_w - cg).items())[:3]} not read; read gave {g[:4]}", wit, feat)
        omitted = Counter(r["offset"] for r in w if r[val] is None)
        for (o, v), n in rest.items():
            if omitted[o] < n or v not in defaults:
                return ctx.violate("C06", "qua.read", name, f"{name}: read gave ({o}, {v}) which the document does not declare (omitted-key defaults accepted: {defaults})", wit, feat)
            omitted[o] -= n
    for key, (attr, _) in META.items():
        if key in doc:
            w = doc[key]
            g = getattr(m, attr)
            if key == "Tags":
                w = [t for t in w.split(" ") if t]
            if g != w:
                return ctx.violate("C06", "qua.read", "metadata", f"{key}: document says {w!r}, read gave {g!r}", wit, dict(feat, field=key))
    ctx.held("qua.read", "denotation")
    ctx.state("qua.read.case", (bool(hits_), bool(holds_), feat["keysounds_omitted"], feat["value_key_omitted"]))


def write_domain(m):
    for name, cols in (("hits", ["offset", "column"]), ("holds", ["offset", "column", "length"]), ("bpms", ["offset", "bpm"]), ("svs", ["offset", "multiplier"])):
        tl = m.objs[name]
        if any(c not in tl.df.columns for c in cols):
            return "list_without_declared_field"
        for r in rows(tl, cols):
            if any(v == "NaN" or (isinstance(v, float) and not math.isfinite(v)) for v in r):
                return "non_finite_value"
    if any(float(c) != int(c) or c < 0 for tl in (m.hits, m.holds) for (c,) in rows(tl, ["column"])):
        return "column_not_a_lane"
    for key, (attr, kinds) in META.items():
        v = getattr(m, attr)
        if key == "Tags":
            if not isinstance(v, (list, tuple)) or any(not isinstance(t, str) or " " in t or not t for t in v):
                return "tags_not_a_list_of_words"
        elif kinds and not isinstance(v, kinds):
            return "metadata_value_of_foreign_type"
        if isinstance(v, float) and not math.isfinite(v):
            return "non_finite_metadata"
    return None


def judge_write(ctx, args, kwargs, result, exc, pre):
    m = args[0]
    try:
        why = write_domain(m)
    except Exception as e:
        ctx.counters["qua.write|domain_gate_failed"] += 1
        return ctx.ood("qua.write", "domain_gate_failed:" + type(e).__name__)
    if why:
        return ctx.ood("qua.write", why)
    schema = {n: schema_problems(m.objs[n]) for n in ("hits", "holds", "bpms", "svs")}
    mem = mem_den(m)
    feat = dict(input_schema_broken=any(schema.values()),
                default_labels=all(list(m.objs[n].df.index) == list(range(len(m.objs[n].df))) for n in ("hits", "holds", "bpms", "svs")))
    wit = dict(hits=mem["hits"][:30], holds=mem["holds"][:30], bpms=mem["bpms"][:10], svs=mem["svs"][:10], schema={k: v for k, v in schema.items() if v})
    if exc is not None:
        return ctx.violate("C06", "qua.write", "raises", f"QuaMap.write raised {type(exc).__name__}: {exc}", dict(wit, tb=core.short_tb(exc)), feat)
    text = result
    wit["text"] = text if len(text) < 4000 else text[:4000] + "..."
    try:
        doc = yaml.safe_load(text)
    except Exception as e:
        return ctx.violate("C06", "qua.write", "wellformed", f"written document is not YAML a safe loader accepts: {type(e).__name__}: {str(e)[:200]}", wit, feat)
    if not isinstance(doc, dict) or any(s not in doc or not isinstance(doc[s], list) for s in SECTIONS):
        return ctx.violate("C06", "qua.write", "wellformed", "written document lacks a section", wit, feat)
    for key in doc:
        if key not in META and key not in SECTIONS:
            return ctx.violate("C06", "qua.write", "keys", f"top-level key {key!r} is not a .qua key", wit, feat)
    for sec, allowed, types in (("TimingPoints", {"StartTime", "Bpm"}, dict(StartTime=(int,), Bpm=(int, float))),
                                ("SliderVelocities", {"StartTime", "Multiplier"}, dict(StartTime=(int,), Multiplier=(int, float))),
                                ("HitObjects", HIT_KEYS, dict(StartTime=(int,), Lane=(int,), EndTime=(int,), KeySounds=(list,)))):
        for o in doc[sec]:
            if not isinstance(o, dict):
                return ctx.violate("C06", "qua.write", "keys", f"{sec} entry is not a mapping: {o!r}", wit, feat)
            extra = set(o) - allowed
            if extra:
                return ctx.violate("C06", "qua.write", "keys", f"{sec} entry uses key(s) {sorted(extra)} outside the format", wit, dict(feat, extra_key=sorted(extra)[0]))
            for k, v in o.items():
                if isinstance(v, bool) or not isinstance(v, types[k]) or (isinstance(v, float) and not math.isfinite(v)):
                    return ctx.violate("C06", "qua.write", "types", f"{sec}.{k} = {v!r} ({type(v).__name__}) is not a value the format defines", wit, dict(feat, field=k))
            if sec == "HitObjects" and o.get("Lane", 1) < 1:
                return ctx.violate("C06", "qua.write", "types", f"Lane {o.get('Lane')} < 1", wit, feat)
    for key, (attr, kinds) in META.items():
        if key not in doc:
            continue
        v = doc[key]
        if kinds and not isinstance(v, kinds):
            return ctx.violate("C06", "qua.write", "types", f"{key} = {v!r} ({type(v).__name__})", wit, dict(feat, field=key))
        w = getattr(m, attr)
        if key == "Tags":
            w = " ".join(w)
        if v != w:
            return ctx.violate("C06", "qua.write", "metadata", f"{key}: memory {w!r}, document {v!r}", wit, dict(feat, field=key))
    den = tree_den(doc)
    lt1 = lambda a, b: abs(a - b) < 1
    mh = [dict(r, end=r["offset"] + r["length"]) for r in mem["holds"]]
    fh = [dict(r, end=r["offset"] + r["length"]) for r in den["holds"]]
    for r in mh + fh:
        r.pop("length")
    for name, w, g, tk, rk in (("hits", mem["hits"], den["hits"], ["offset"], []), ("holds", mh, fh, ["offset", "end"], []),
                               ("bpms", mem["bpms"], [dict(r, bpm=float(r["bpm"])) for r in den["bpms"] if r["bpm"] is not None], ["offset"], ["bpm"]),
                               ("svs", mem["svs"], [dict(r, multiplier=float(r["multiplier"])) for r in den["svs"] if r["multiplier"] is not None], ["offset"], ["multiplier"])):
        bad = match_rows(w, g, tk, lt1, rk)
        if bad:
            return ctx.violate("C06", "qua.write", name, f"{name}: {bad} [memory vs document]", wit, feat)
    # which tempo is in force: of several timing points at one time the one listed later counts (memory: the later row).
    # Probed 1 ms after every tempo point that has no other tempo point within the 2 ms after it (whole-ms StartTime).
    mrows = sorted(mem["bpms"], key=lambda r: r["offset"])          # stable: equal offsets keep row order
    drows = sorted([r for r in den["bpms"] if r["bpm"] is not None], key=lambda r: r["offset"])
    offs = [r["offset"] for r in mrows]
    for r in mrows:
        p = r["offset"] + 1.0
        if any(r["offset"] < o < r["offset"] + 2.0 for o in offs):
            continue
        want = [x for x in mrows if x["offset"] <= p][-1]["bpm"]
        got_rows = [x for x in drows if x["offset"] <= p]
        if not got_rows:
            continue
        got = float(got_rows[-1]["bpm"])
        if abs(got - want) > 1e-9 * max(1.0, abs(want)):
            return ctx.violate("C06", "qua.write", "tempo_in_force", f"at {p} ms the chart's tempo is {want}, the document's is {got} (timing points listed so that another one is in force)",
                               wit, dict(feat, coincident_in_memory=len(set(offs)) != len(offs)))
    ctx.held("qua.write", "denotation")
    ctx.state("qua.write.case", (bool(mem["hits"]), bool(mem["holds"]), bool(mem["svs"]), feat["default_labels"]))


def install(ctx, read=True, write=True):
    from reamber.quaver.QuaMap import QuaMap

    if read:
        patch_method(QuaMap, "read", monitor("qua.read", judge_read))
    if write:
        patch_method(QuaMap, "write", monitor("qua.write", judge_write))
