"""C16: contracts on the TimedList API against a plain row-sequence model.

Every wrapped method snapshots `self` as a Python list of row dicts before the
call and judges the result against the same operation on that list.  The
schema invariant (declared fields only, no missing value) is checked on every
list the API hands back whose inputs themselves satisfied it.
"""
from __future__ import annotations

import math

from rv import core
from rv.install import monitor, patch_method
from rv.snapshot import _val, is_timed_list, schema_problems


def rowdicts(tl):
    df = tl.df
    cols = [str(c) for c in df.columns]
    arrs = [df[c].tolist() for c in df.columns]
    return [dict(zip(cols, (_val(v) for v in r))) for r in zip(*arrs)] if arrs else []


def veq(a, b):
    if isinstance(a, float) or isinstance(b, float):
        try:
            fa, fb = float(a), float(b)
            if math.isnan(fa) and math.isnan(fb):
                return True
            return fa == fb
        except (TypeError, ValueError):
            return a == b
    return a == b or (a == "NaN" and b == "NaN")


def row_eq(a, b):
    return set(a) == set(b) and all(veq(a[k], b[k]) for k in a)


def rows_eq(A, B):
    return len(A) == len(B) and all(row_eq(a, b) for a, b in zip(A, B))


def multiset_eq(A, B):
    if len(A) != len(B):
        return False
    B = list(B)
    for a in A:
        for i, b in enumerate(B):
            if row_eq(a, b):
                del B[i]
                break
        else:
            return False
    return True


def item_dict(it):
    return {str(k): _val(v) for k, v in it.data.to_dict().items()}


def feat_of(tl, op):
    df = tl.df
    n = len(df)
    default_labels = list(df.index) == list(range(n))
    return dict(op=op, cls_kind=kind_of(tl), default_labels=default_labels)


def kind_of(tl):
    n = type(tl).__name__
    if "Hold" in n or "Roll" in n:
        return "hold"
    if "Bpm" in n:
        return "bpm"
    return "other"


def clean(tl):
    return not schema_problems(tl)


def check_result_list(ctx, mon, self, res, want_rows, op, wit, ordered=True, feat=None):
    feat = feat or feat_of(self, op)
    if not is_timed_list(res):
        return ctx.violate("C16", mon, "result_type", f"{op} returned {type(res).__name__}", wit, feat)
    if type(res) is not type(self):
        return ctx.violate("C16", mon, "result_class", f"{op} on {type(self).__name__} returned {type(res).__name__}", wit, feat)
    got = rowdicts(res)
    ok = rows_eq(want_rows, got) if ordered else multiset_eq(want_rows, got)
    if not ok:
        return ctx.violate("C16", mon, "rows", f"{op}: expected rows {want_rows[:4]}... ({len(want_rows)}), got {got[:4]}... ({len(got)})",
                           dict(wit, want=want_rows[:30], got=got[:30]), feat)
    if clean(self):
        probs = schema_problems(res)
        if probs:
            return ctx.violate("C16", mon, "schema", f"{op}: result list {probs}", wit, feat)
    ctx.held(mon, op)
    ctx.state("list.op", (type(self).__name__, op, feat["default_labels"]))
    return True


class J:
    """One judge per method; pre() snapshots self."""

    def __init__(self, op):
        self.op = op

    def pre(self, ctx, args, kwargs):
        self_ = args[0]
        if not is_timed_list(self_):
            return None
        return dict(rows=rowdicts(self_), cols=[str(c) for c in self_.df.columns])

    def __call__(self, ctx, args, kwargs, result, exc, pre):
        if pre is None:
            return
        getattr(self, "j_" + self.op)(ctx, args[0], args[1:], kwargs, result, exc, pre["rows"], pre)

    # -- helpers
    def _w(self, self_, R, **kw):
        return dict(cls=type(self_).__name__, rows=R[:40], n=len(R), **kw)

    def _raise(self, ctx, mon, self_, exc, wit, op):
        ctx.violate("C16", mon, "raises", f"{op} raised {type(exc).__name__}: {exc}", dict(wit, tb=core.short_tb(exc)), feat_of(self_, op))

    # -- judges
    def j_len(self, ctx, s, a, kw, res, exc, R, pre):
        wit = self._w(s, R)
        if exc is not None:
            return self._raise(ctx, "list.len", s, exc, wit, "len")
        if res != len(R):
            return ctx.violate("C16", "list.len", "value", f"len = {res}, rows = {len(R)}", wit, feat_of(s, "len"))
        ctx.held("list.len", "len")

    def j_getitem(self, ctx, s, a, kw, res, exc, R, pre):
        import numpy as np
        import pandas as pd

        key = a[0] if a else kw.get("item")
        mon = "list.getitem"
        if isinstance(key, bool):
            return ctx.ood(mon, "bool_key")
        if isinstance(key, int):
            wit = self._w(s, R, index=key)
            f = feat_of(s, "getitem_int")
            inrange = -len(R) <= key < len(R)
            if not inrange:
                if exc is None:
                    return ctx.violate("C16", mon, "out_of_range", f"[{key}] on {len(R)} rows returned {res!r}", wit, f)
                return ctx.held(mon, "getitem_int_out_of_range")
            if exc is not None:
                return self._raise(ctx, mon, s, exc, wit, "getitem_int")
            if type(res) is not type(s)._item_class():
                return ctx.violate("C16", mon, "item_class", f"[{key}] gave {type(res).__name__}, item class is {type(s)._item_class().__name__}", wit, f)
            got = item_dict(res)
            if not row_eq(R[key], got):
                return ctx.violate("C16", mon, "item_values", f"[{key}] gave {got}, row is {R[key]}", wit, f)
            ctx.held(mon, "getitem_int")
            ctx.state("list.op", (type(s).__name__, "getitem_int", f["default_labels"]))
            return
        if isinstance(key, slice):
            wit = self._w(s, R, slice=[key.start, key.stop, key.step])
            if exc is not None:
                return self._raise(ctx, mon, s, exc, wit, "getitem_slice")
            return check_result_list(ctx, mon, s, res, R[key], "getitem_slice", wit)
        # boolean masks
        mask = None
        if isinstance(key, pd.Series) and key.dtype == bool:
            if not key.index.equals(s.df.index):
                return ctx.ood(mon, "mask_with_foreign_labels")
            mask = key.tolist()
        elif isinstance(key, np.ndarray) and key.dtype == bool:
            mask = key.tolist()
        elif isinstance(key, list) and not key:
            return ctx.ood(mon, "empty_list_key_is_not_a_mask")
        elif isinstance(key, list) and all(isinstance(x, (bool, np.bool_)) for x in key):
            mask = [bool(x) for x in key]
        if mask is None:
            return ctx.ood(mon, "other_key_kind")
        if len(mask) != len(R):
            return ctx.ood(mon, "mask_length_mismatch")
        wit = self._w(s, R, mask=mask[:60])
        if exc is not None:
            return self._raise(ctx, mon, s, exc, wit, "getitem_mask")
        check_result_list(ctx, mon, s, res, [r for r, m in zip(R, mask) if m], "getitem_mask", wit)

    def j_first_offset(self, ctx, s, a, kw, res, exc, R, pre):
        self._extreme(ctx, s, res, exc, R, "first_offset", lambda: min(r["offset"] for r in R))

    def j_last_offset(self, ctx, s, a, kw, res, exc, R, pre):
        if _is_hold(s) and R and "length" in R[0]:
            self._extreme(ctx, s, res, exc, R, "last_offset", lambda: max(r["offset"] + r["length"] for r in R))
        else:
            self._extreme(ctx, s, res, exc, R, "last_offset", lambda: max(r["offset"] for r in R))

    def j_first_last_offset(self, ctx, s, a, kw, res, exc, R, pre):
        mon = "list.extrema"
        if not R:
            return ctx.ood(mon, "empty_list_extrema_unspecified")
        if any(isinstance(r["offset"], str) for r in R):
            return ctx.ood(mon, "nan_offset")
        wit = self._w(s, R)
        if exc is not None:
            return self._raise(ctx, mon, s, exc, wit, "first_last_offset")
        lo = min(r["offset"] for r in R)
        hi = max((r["offset"] + r["length"]) if (_is_hold(s) and "length" in r) else r["offset"] for r in R)
        if not (veq(res[0], lo) and veq(res[1], hi)):
            return ctx.violate("C16", mon, "value", f"first_last_offset = {res}, rows give {(lo, hi)}", wit, feat_of(s, "first_last_offset"))
        ctx.held(mon, "first_last_offset")

    def _extreme(self, ctx, s, res, exc, R, op, f):
        mon = "list.extrema"
        if not R:
            return ctx.ood(mon, "empty_list_extrema_unspecified")
        if any(isinstance(r["offset"], str) or isinstance(r.get("length", 0.0), str) for r in R):
            return ctx.ood(mon, "nan_offset")
        wit = self._w(s, R)
        if exc is not None:
            return self._raise(ctx, mon, s, exc, wit, op)
        want = f()
        if not veq(res, want):
            return ctx.violate("C16", mon, "value", f"{op} = {res}, rows give {want}", wit, feat_of(s, op))
        ctx.held(mon, op)
        ctx.state("list.op", (type(s).__name__, op, feat_of(s, op)["default_labels"]))

    def j_sorted(self, ctx, s, a, kw, res, exc, R, pre):
        mon = "list.sorted"
        rev = kw.get("reverse", a[0] if a else False)
        if any(isinstance(r["offset"], str) for r in R):
            return ctx.ood(mon, "nan_offset")
        wit = self._w(s, R, reverse=rev)
        if exc is not None:
            return self._raise(ctx, mon, s, exc, wit, "sorted")
        ok = check_result_list(ctx, mon, s, res, R, "sorted", wit, ordered=False)
        if ok is True:
            offs = [r["offset"] for r in rowdicts(res)]
            good = all(x >= y for x, y in zip(offs, offs[1:])) if rev else all(x <= y for x, y in zip(offs, offs[1:]))
            if not good:
                ctx.violate("C16", mon, "order", f"sorted(reverse={rev}) offsets not monotone: {offs[:12]}", wit, feat_of(s, "sorted"))

    def j_append(self, ctx, s, a, kw, res, exc, R, pre):
        import pandas as pd

        from reamber.base.Series import Series

        mon = "list.append"
        val = a[0] if a else kw["val"]
        sort = kw.get("sort", a[1] if len(a) > 1 else False)
        if isinstance(val, Series):
            if type(val) is not type(s)._item_class():
                return ctx.ood(mon, "item_of_other_class")
            add = [item_dict(val)]
            kindv = "item"
        elif is_timed_list(val):
            if type(val) is not type(s):
                return ctx.ood(mon, "list_of_other_class")
            add = rowdicts(val)
            kindv = "list"
        else:
            return ctx.ood(mon, "raw_pandas_value")
        if R and add and set(R[0]) != set(add[0]):
            return ctx.ood(mon, "fields_differ")
        if any(isinstance(r["offset"], str) for r in R + add):
            return ctx.ood(mon, "nan_offset")
        wit = self._w(s, R, appended=add[:20], sort=sort)
        f = dict(feat_of(s, "append_" + kindv), sort=bool(sort), to_empty=not R)
        if exc is not None:
            return self._raise(ctx, mon, s, exc, wit, "append")
        want = R + add
        if not R or not add:
            # dtype of an all-empty side is not demanded: compare values loosely (1 == 1.0 holds anyway)
            pass
        ok = check_result_list(ctx, mon, s, res, want, "append_" + kindv, wit, ordered=not sort, feat=f)
        if ok is True and sort:
            offs = [r["offset"] for r in rowdicts(res)]
            if not all(x <= y for x, y in zip(offs, offs[1:])):
                ctx.violate("C16", mon, "order", f"append(sort=True) offsets not sorted: {offs[:12]}", wit, f)

    def _filt(self, ctx, s, res, exc, R, op, wit, pred):
        mon = "list.filter"
        if any(isinstance(r["offset"], str) or isinstance(r.get("length", 0.0), str) for r in R):
            return ctx.ood(mon, "nan_offset")
        if exc is not None:
            return self._raise(ctx, mon, s, exc, wit, op)
        check_result_list(ctx, mon, s, res, [r for r in R if pred(r)], op, wit)

    def j_after(self, ctx, s, a, kw, res, exc, R, pre):
        names = ["offset", "include_end", "include_tail"]
        p = dict(include_end=False, include_tail=False)
        p.update(dict(zip(names, a)))
        p.update(kw)
        hold = _is_hold(s)
        x = p["offset"]
        if hold and p["include_tail"] and any(r["length"] < 0 for r in R if not isinstance(r["length"], str)):
            return ctx.ood("list.filter", "negative_length_with_tail_variant")
        key = (lambda r: r["offset"] + (r["length"] if (hold and p["include_tail"]) else 0))
        pred = (lambda r: key(r) >= x) if p["include_end"] else (lambda r: key(r) > x)
        self._filt(ctx, s, res, exc, R, "after", self._w(s, R, **{k: v for k, v in p.items()}), pred)

    def j_before(self, ctx, s, a, kw, res, exc, R, pre):
        names = ["offset", "include_end", "include_head"]
        p = dict(include_end=False, include_head=True)
        p.update(dict(zip(names, a)))
        p.update(kw)
        hold = _is_hold(s)
        x = p["offset"]
        if hold and not p["include_head"] and any(r["length"] < 0 for r in R if not isinstance(r["length"], str)):
            return ctx.ood("list.filter", "negative_length_with_tail_variant")
        key = (lambda r: r["offset"] + (r["length"] if (hold and not p["include_head"]) else 0))
        pred = (lambda r: key(r) <= x) if p["include_end"] else (lambda r: key(r) < x)
        self._filt(ctx, s, res, exc, R, "before", self._w(s, R, **{k: v for k, v in p.items()}), pred)

    def j_between(self, ctx, s, a, kw, res, exc, R, pre):
        hold = _is_hold(s)
        names = ["lower_bound", "upper_bound", "include_ends"] + (["include_head", "include_tail"] if hold else [])
        p = dict(include_ends=(True, False), include_head=True, include_tail=False)
        p.update(dict(zip(names, a)))
        p.update(kw)
        ie = p["include_ends"]
        if isinstance(ie, bool):
            if hold:
                return ctx.ood("list.filter", "bool_include_ends_on_hold_list")
            ie = (ie, ie)
        lo, hi = p["lower_bound"], p["upper_bound"]
        if hold and any(r["length"] < 0 for r in R if not isinstance(r["length"], str)):
            return ctx.ood("list.filter", "negative_length_with_tail_variant")
        klo = (lambda r: r["offset"] + (r["length"] if (hold and p["include_tail"]) else 0))
        khi = (lambda r: r["offset"] + (r["length"] if (hold and not p["include_head"]) else 0))
        plo = (lambda r: klo(r) >= lo) if ie[0] else (lambda r: klo(r) > lo)
        phi = (lambda r: khi(r) <= hi) if ie[1] else (lambda r: khi(r) < hi)
        self._filt(ctx, s, res, exc, R, "between", self._w(s, R, lo=lo, hi=hi, include_ends=list(ie), include_head=p["include_head"], include_tail=p["include_tail"]),
                   lambda r: plo(r) and phi(r))


def _is_hold(s):
    from reamber.base.lists.notes.HoldList import HoldList

    return isinstance(s, HoldList)


def judge_iter(ctx, tl, items, exc):
    """Active check used by the workload: list(tl) against the rows."""
    mon = "list.iter"
    R = rowdicts(tl)
    wit = dict(cls=type(tl).__name__, rows=R[:40])
    f = feat_of(tl, "iter")
    if exc is not None:
        return ctx.violate("C16", mon, "raises", f"iteration raised {type(exc).__name__}: {exc}", dict(wit, tb=core.short_tb(exc)), f)
    if len(items) != len(R):
        return ctx.violate("C16", mon, "count", f"iteration yielded {len(items)} items for {len(R)} rows", wit, f)
    ic = type(tl)._item_class()
    allowed = set(ic._from_series_allowed_names())
    for i, (it, r) in enumerate(zip(items, R)):
        if type(it) is not ic:
            return ctx.violate("C16", mon, "item_class", f"item {i} is {type(it).__name__}, expected {ic.__name__}", wit, f)
        got = item_dict(it)
        want = {k: v for k, v in r.items() if k in allowed}
        if not all(k in got and veq(got[k], v) for k, v in want.items()):
            return ctx.violate("C16", mon, "item_values", f"item {i} = {got}, row = {r}", wit, f)
        if set(got) - allowed:
            return ctx.violate("C16", mon, "item_fields", f"item {i} carries undeclared field(s) {sorted(set(got) - allowed)}", wit, f)
    ctx.held(mon, "iter")
    ctx.state("list.op", (type(tl).__name__, "iter", f["default_labels"]))


def judge_constructed(ctx, how, cls, tl, exc, want_rows, wit):
    """Active check: a list built from items / dict / empty(n) has exactly the
    declared fields, no missing value, and the given values."""
    mon = "list.construct"
    f = dict(op=how, cls_kind="hold" if "Hold" in cls.__name__ or "Roll" in cls.__name__ else ("bpm" if "Bpm" in cls.__name__ else "other"),
             list_valued_default=any(isinstance(d, (list, dict)) for d in cls.props().defaults))
    wit = dict(wit, cls=cls.__name__)
    if exc is not None:
        return ctx.violate("C16", mon, "raises", f"{how} raised {type(exc).__name__}: {exc}", dict(wit, tb=core.short_tb(exc)), f)
    if type(tl) is not cls:
        return ctx.violate("C16", mon, "result_class", f"{how} of {cls.__name__} gave {type(tl).__name__}", wit, f)
    probs = schema_problems(tl)
    if probs:
        return ctx.violate("C16", mon, "schema", f"{how}: {probs}", wit, f)
    got = rowdicts(tl)
    if want_rows is not None and not rows_eq(want_rows, got):
        return ctx.violate("C16", mon, "rows", f"{how}: expected {want_rows[:3]}, got {got[:3]} (n {len(want_rows)} vs {len(got)})", wit, f)
    ctx.held(mon, how)
    ctx.state("list.op", (cls.__name__, how, True))


def install(ctx):
    from reamber.base.lists.notes.HoldList import HoldList
    from reamber.base.lists.TimedList import TimedList

    table = {"__len__": "len", "__getitem__": "getitem", "first_offset": "first_offset", "last_offset": "last_offset",
             "first_last_offset": "first_last_offset", "sorted": "sorted", "append": "append", "after": "after", "before": "before",
             "between": "between"}
    names = {"len": "list.len", "getitem": "list.getitem", "first_offset": "list.extrema", "last_offset": "list.extrema",
             "first_last_offset": "list.extrema", "sorted": "list.sorted", "append": "list.append", "after": "list.filter",
             "before": "list.filter", "between": "list.filter"}
    for cls in (TimedList, HoldList):
        for meth, op in table.items():
            if meth in cls.__dict__:
                patch_method(cls, meth, monitor(names[op], J(op)))
    # HitList.__getitem__ only forwards to super(): judged there
