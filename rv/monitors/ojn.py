"""R-monitor on O2JMapSet.read (C07) against rv/ref/ojn.py."""
from __future__ import annotations

from rv import core
from rv.install import monitor, patch_method
from rv.ref import ojn as rojn
from rv.ref import timing as rt
from rv.snapshot import rows

REL = 1e-6


def close(a, b):
    return rt.close(a, b, 1e-6, REL)


def judge_read(ctx, args, kwargs, result, exc, pre):
    b = args[0] if args else kwargs["b"]
    if not isinstance(b, (bytes, bytearray)) or len(b) < 300:
        return ctx.ood("ojn.read", "not_300_byte_header")
    try:
        den = rojn.parse_ojn(bytes(b))
    except Exception:
        ctx.counters["ojn.read|reference_failed"] += 1
        return ctx.ood("ojn.read", "reference_could_not_parse")
    if den["problems"]:
        return ctx.ood("ojn.read", "malformed_file")
    if any(l["frac_pkgs"] for l in den["levels"]):
        return ctx.ood("ojn.read", "measure_fraction_packages")
    if not (den["hdr"]["bpm"] > 0):
        return ctx.ood("ojn.read", "non_positive_header_bpm")
    levels = []
    for l in den["levels"]:
        h, ho, pts, probs = rojn.level_den(den["hdr"]["bpm"], l)
        if probs:
            return ctx.ood("ojn.read", "malformed_level")
        if any(v <= 0 for _, v in l["tempo"]):
            return ctx.ood("ojn.read", "non_positive_tempo_event")
        levels.append((h, ho, pts))
    n_tempo = [len(l["tempo"]) for l in den["levels"]]
    feat = dict(no_tempo_event=any(n == 0 for n in n_tempo), tempo_events_off_measure_0=any(p != 0 for l in den["levels"] for p, _ in l["tempo"]),
                tempo_after_last_note=any(l["tempo"] and l["notes"] and max(p for p, _ in l["tempo"]) > max(n[0] for n in l["notes"]) for l in den["levels"]))
    wit = dict(header={k: (v if not isinstance(v, bytes) else v.hex()) for k, v in den["hdr"].items()},
               levels=[dict(tempo=[(float(p), v) for p, v in l["tempo"]][:30], notes=[(float(n[0]),) + tuple(n[1:]) for n in l["notes"]][:60]) for l in den["levels"]],
               hex=bytes(b).hex() if len(b) < 4000 else None)
    if exc is not None:
        return ctx.violate("C07", "ojn.read", "raises", f"O2JMapSet.read raised {type(exc).__name__}: {exc}", dict(wit, tb=core.short_tb(exc)), feat)
    ms = result
    for k, v in den["hdr"].items():
        g = getattr(ms, k)
        same = (close(g, v) if isinstance(v, float) else (list(g) == list(v) if isinstance(v, list) else g == v))
        if not same:
            return ctx.violate("C07", "ojn.read", "header", f"{k}: file says {v!r}, read gave {g!r}", wit, dict(feat, field=k))
    if len(ms.maps) != len(levels):
        return ctx.violate("C07", "ojn.read", "levels", f"{len(levels)} levels in the file, {len(ms.maps)} charts read", wit, feat)
    for li, ((h, ho, pts), m) in enumerate(zip(levels, ms.maps)):
        gh = sorted((int(c), float(o), int(v), int(p)) for o, c, v, p in rows(m.hits, ["offset", "column", "volume", "pan"]))
        gl = sorted((int(c), float(o), float(ln), int(v), int(p)) for o, c, ln, v, p in rows(m.holds, ["offset", "column", "length", "volume", "pan"]))
        gp = sorted((float(o), float(v)) for o, v in rows(m.bpms, ["offset", "bpm"]))
        wh = sorted((c, float(t), v, p) for c, t, v, p in h)
        wl = sorted((c, float(t), float(ln), v, p) for c, t, ln, v, p in ho)
        wp = sorted((float(t), float(v)) for t, v in pts)
        if [x[0] for x in gh] != [x[0] for x in wh] or len(gl) != len(wl) or [x[0] for x in gl] != [x[0] for x in wl]:
            return ctx.violate("C07", "ojn.read", "notes", f"level {li}: notes per column differ: file {len(wh)} hits / {len(wl)} long notes, read {len(gh)} / {len(gl)}", wit, feat)
        for w, g in zip(wh, gh):
            if not close(w[1], g[1]) or w[2:] != g[2:]:
                return ctx.violate("C07", "ojn.read", "time" if w[2:] == g[2:] else "note_fields", f"level {li}: note expected {w}, read {g}", wit, feat)
        for w, g in zip(wl, gl):
            if not close(w[1], g[1]) or not close(w[1] + w[2], g[1] + g[2]) or w[3:] != g[3:]:
                return ctx.violate("C07", "ojn.read", "time" if w[3:] == g[3:] else "note_fields", f"level {li}: long note expected {w}, read {g}", wit, feat)
        if len(wp) != len(gp) or any(not close(a[0], b[0]) or not close(a[1], b[1]) for a, b in zip(wp, gp)):
            return ctx.violate("C07", "ojn.read", "tempo", f"level {li}: tempo points expected {wp[:6]}, read {gp[:6]}", wit, feat)
    ctx.held("ojn.read", "denotation", len(levels))
    ctx.state("ojn.read.case", (min(max(n_tempo), 3), feat["tempo_events_off_measure_0"], feat["tempo_after_last_note"], any(ho for _, ho, _ in levels)))


def install(ctx):
    from reamber.o2jam.O2JMapSet import O2JMapSet

    patch_method(O2JMapSet, "read", monitor("ojn.read", judge_read))
