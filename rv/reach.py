"""Reach probes: sys.monitoring LINE counters restricted to anchor code objects.

A check whose deciding mechanism lines were never executed must not report
"held"; these counters make that visible (ctx.reach[label]).
Cost is confined to the probed code objects (set_local_events).
"""
from __future__ import annotations

import inspect
import sys

from rv import core

_TOOL = None
_LINES: dict = {}  # (code, lineno) -> label


def _cb(code, line):
    lab = _LINES.get((code, line))
    if lab is not None and core._CTX is not None:
        core._CTX.reach[lab] += 1
    return None


def _tool():
    global _TOOL
    if _TOOL is None:
        mon = sys.monitoring
        for tid in (3, 4, 2, 1):
            try:
                mon.use_tool_id(tid, "rv-reach")
                _TOOL = tid
                break
            except ValueError:
                continue
        mon.register_callback(_TOOL, mon.events.LINE, _cb)
    return _TOOL


def probe(fn, labels: dict):
    """labels: name -> substring  or  (substring, nth occurrence) of a source line
    of fn.  Returns the labels that could not be located (should be empty)."""
    fn = inspect.unwrap(fn)
    if isinstance(fn, (staticmethod, classmethod)):
        fn = fn.__func__
    code = fn.__code__
    src, first = inspect.getsourcelines(fn)
    missing = []
    for lab, pat in labels.items():
        sub, nth = pat if isinstance(pat, tuple) else (pat, 0)
        hits = [first + i for i, ln in enumerate(src) if sub in ln]
        if len(hits) <= nth:
            missing.append(lab)
            continue
        _LINES[(code, hits[nth])] = lab
    tid = _tool()
    sys.monitoring.set_local_events(tid, code, sys.monitoring.events.LINE)
    return missing
