"""Runs the repository's own test-suite inside the current (monitored) process,
so that every call the tests make into the wrapped API is judged by the passive
monitors the check installed (DESIGN 1: 'attached to the function, not to a scenario')."""
from __future__ import annotations

import io
import os
import contextlib


def run_repo_tests(ctx, select=None):
    import pytest

    repo = os.environ.get("VERIF_REPO", "/repo")
    cwd = os.getcwd()
    os.chdir(repo)
    buf = io.StringIO()
    try:
        with contextlib.redirect_stdout(buf), contextlib.redirect_stderr(buf):
            rc = pytest.main(["-q", "-p", "no:cacheprovider", "-p", "no:xdist", "-p", "no:randomly", "--no-header", "-x" if False else "-q",
                              "--timeout=900", "--deselect", "tests/algorithm_tests/osu/replay", *(select or ["tests"])])
    finally:
        os.chdir(cwd)
    tail = buf.getvalue().strip().split("\n")[-1][:200]
    ctx.counters["suite|pytest_exit_code_%d" % int(rc)] += 1
    ctx.notes.append("repo test-suite under monitors: " + tail)
    ctx.state("suite.summary", tail)
    return rc
