#!/usr/bin/env python3
"""Writes seeded/SUMMARY.md from seeded/*/meta.json and seeded/RESULTS.jsonl (last result per seed and check)."""
import glob, json, os
HERE = os.path.dirname(os.path.dirname(os.path.abspath(__file__)))
last = {}
first = {}
suite = {}
for l in open(HERE + "/seeded/RESULTS.jsonl"):
    r = json.loads(l)
    for c, v in r["checks"].items():
        first.setdefault((r["seed"], c), v["verdict"])
        last[(r["seed"], c)] = v
    if "suite_with_patch" in r:
        suite[r["seed"]] = r["suite_with_patch"]["summary"].split(" in ")[0]
rows = []
for d in sorted(glob.glob(HERE + "/seeded/[CFGHIJKLM]*_*")):
    sid = os.path.basename(d)
    m = json.load(open(d + "/meta.json"))
    p = m["property"]
    v = last.get((sid, p), {})
    clause = (v.get("first") or [""])[0]
    mon = clause.split("monitor=")[1].split(" ")[0] if "monitor=" in clause else ""
    cl = clause.split("clause=")[1].split(" ")[0] if "clause=" in clause else ""
    now = f"{v.get('verdict', '?')} ({mon}.{cl})" if not m.get("disposition") else "NOT CAUGHT BY DECISION: " + m["disposition"][:160].replace("|", "/")
    rows.append(f"| {sid} | {m['summary'][:150].replace('|', '/')} | {m['needs'][:110].replace('|', '/')} | {first.get((sid, p), '?')} | {now} | {suite.get(sid, '')} |")
out = ["| seed | change | needs | first run | now (deciding monitor.clause) | repository suite with the patch (own run) |", "|---|---|---|---|---|---|"] + rows
open(HERE + "/seeded/SUMMARY.md", "w").write("\n".join(out) + "\n")
print(len(rows), "seeds;", sum(1 for r in rows if r.split("|")[5].strip().startswith("caught")), "caught now;", sum(1 for r in rows if "NOT CAUGHT BY DECISION" in r.split("|")[5]), "not caught by decision;", sum(1 for r in rows if "MISSED" in r.split("|")[4]), "missed on first run")
