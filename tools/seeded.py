#!/usr/bin/env python3
"""tools/seeded.py [ids...] [--tier quick] [--checks Cxx,Cyy]
Runs the checks against every seeded property-breaking change under /verif/seeded/<id>/ :
a scratch copy of /repo's working tree gets patch.diff applied, demo.py must FAIL there and PASS on the
unchanged copy, then the property's check (and any --checks) run with VERIF_REPO pointing at the copy.
Prints one line per (seed, check): caught (exit 1) / MISSED (exit 0) / inconclusive (exit 2).
Results are appended to seeded/RESULTS.jsonl.  Scratch copies live under $TMPDIR and are removed."""
import json, os, shutil, subprocess, sys, tempfile, time

HERE = os.path.dirname(os.path.dirname(os.path.abspath(__file__)))
PY = os.environ.get("VERIF_PYTHON", "/venv/bin/python")


def scratch(patch=None):
    d = tempfile.mkdtemp(prefix="seeded_")
    subprocess.run(["cp", "-r", "/repo/reamber", d + "/reamber"], check=True)
    os.symlink("/repo/rsc", d + "/rsc")
    subprocess.run(["cp", "-r", "/repo/tests", d + "/tests"], check=True)
    for x in ("pytest.ini", "setup.cfg", "pyproject.toml", "tox.ini", "conftest.py"):
        if os.path.exists("/repo/" + x):
            shutil.copy("/repo/" + x, d + "/" + x)
    if patch:
        r = subprocess.run(["patch", "-p1", "-s", "-d", d, "-i", patch], capture_output=True, text=True)
        if r.returncode != 0:
            shutil.rmtree(d)
            raise RuntimeError("patch does not apply: " + r.stdout[-300:] + r.stderr[-300:])
    return d


def demo(d, sd):
    shutil.copytree(sd, d + "/SEEDED_DEMO", dirs_exist_ok=True)
    r = subprocess.run([PY, "SEEDED_DEMO/demo.py"], cwd=d, capture_output=True, text=True, timeout=600,
                       env=dict(os.environ, PYTHONPATH=d, PYTHONHASHSEED="0"))
    return r.returncode, (r.stdout + r.stderr)[-400:]


def suite(d):
    """the repository's own tests on the scratch copy: (passed, failed, reamber path ok)"""
    r = subprocess.run([PY, "-c", "import reamber, os; print(os.path.dirname(os.path.dirname(reamber.__file__)))"], cwd=d, capture_output=True, text=True,
                       env=dict(os.environ, PYTHONPATH=d))
    where = r.stdout.strip().split("\n")[-1]
    r = subprocess.run([PY, "-m", "pytest", "-q", "-p", "no:cacheprovider", "-n", "8", "tests"], cwd=d, capture_output=True, text=True, timeout=1800,
                       env=dict(os.environ, PYTHONPATH=d))
    tail = [l for l in r.stdout.strip().split("\n") if " passed" in l or " failed" in l][-1:] or [r.stdout[-200:]]
    failed = sorted(l.split(" ")[1] for l in r.stdout.split("\n") if l.startswith("FAILED "))
    extra = [f for f in failed if "test_parse_replays_error_osr" not in f]
    flaky = []
    if extra:
        # tests sharing a scratch file (qua test_hits_only / test_holds_only write the same rice.qua) race under xdist: confirm serially
        r2 = subprocess.run([PY, "-m", "pytest", "-q", "-p", "no:cacheprovider"] + extra, cwd=d, capture_output=True, text=True, timeout=1800,
                            env=dict(os.environ, PYTHONPATH=d))
        still = sorted(l.split(" ")[1] for l in r2.stdout.split("\n") if l.startswith("FAILED "))
        flaky = [f for f in extra if f not in still]
        failed = [f for f in failed if f not in flaky]
    return dict(summary=tail[0].strip(" ="), failed=failed, passes_serially_after_xdist_race=flaky, imported_from=where,
                ok_path=os.path.realpath(where) == os.path.realpath(d))


def main():
    do_suite = "--suite" in sys.argv
    args = [a for a in sys.argv[1:] if not a.startswith("--")]
    tier = "quick"
    extra = []
    for i, a in enumerate(sys.argv):
        if a == "--tier":
            tier = sys.argv[i + 1]; args.remove(tier)
        if a == "--checks":
            extra = sys.argv[i + 1].split(","); args.remove(sys.argv[i + 1])
    ids = args or sorted(x for x in os.listdir(HERE + "/seeded") if os.path.isdir(HERE + "/seeded/" + x))
    for sid in ids:
        sd = f"{HERE}/seeded/{sid}"
        meta = json.load(open(sd + "/meta.json"))
        prop = meta["property"]
        clean = scratch()
        try:
            rc0, out0 = demo(clean, sd)
        finally:
            shutil.rmtree(clean, ignore_errors=True)
        try:
            d = scratch(sd + "/patch.diff")
        except RuntimeError as e:
            print(f"{sid}: {e}")
            continue
        try:
            rc1, out1 = demo(d, sd)
            line = dict(seed=sid, property=prop, demo_unpatched_rc=rc0, demo_patched_rc=rc1, checks={}, at=time.strftime("%Y-%m-%d %H:%M"))
            if do_suite:
                line["suite_with_patch"] = suite(d)
                print(f"{sid} suite with patch: {line['suite_with_patch']['summary']} failed={[f.split('::')[-1] for f in line['suite_with_patch']['failed']]} path_ok={line['suite_with_patch']['ok_path']}")
            for c in [prop] + [x for x in extra if x != prop]:
                t0 = time.time()
                r = subprocess.run([HERE + "/vcheck", c, "--tier", tier], capture_output=True, text=True,
                                   env=dict(os.environ, VERIF_REPO=d, VERIF_EVIDENCE_DIR=d + "/evidence", VERIF_REPLAY_DIR=d + "/replays"))
                verdict = {0: "MISSED", 1: "caught", 2: "inconclusive"}.get(r.returncode, f"rc{r.returncode}")
                clause = [l for l in r.stdout.split("\n") if l.strip().startswith("violation monitor=")][:2]
                line["checks"][c] = dict(verdict=verdict, wall_s=round(time.time() - t0, 1), first=[l.strip()[:200] for l in clause])
                print(f"{sid} [{prop}] demo clean={rc0} patched={rc1} | {c} {tier}: {verdict} ({time.time() - t0:.0f}s) {clause[0].strip()[:150] if clause else ''}")
            with open(HERE + "/seeded/RESULTS.jsonl", "a") as f:
                f.write(json.dumps(line) + "\n")
        finally:
            shutil.rmtree(d, ignore_errors=True)


if __name__ == "__main__":
    main()
