#!/usr/bin/env python3
"""Regenerates /verif/MANIFEST.json from the table below + checks/*.py present.
Run:  python3 tools/mkmanifest.py   (validates against /root/.vp/MANIFEST.schema.json when jsonschema is importable)
"""
import json
import os
import sys

HERE = os.path.dirname(os.path.dirname(os.path.abspath(__file__)))

# property -> (technique, level text, level note)
T = {
    "C01": ("reference-interpreter monitor on OsuMap.read/write + offline generation-chain checker over recorded denotations",
            "Every OsuMap.read / OsuMap.write execution driven by generated v14-mania texts and in-memory charts (all key counts, hostile metadata, histories) is compared online with an independent interpreter of the format; write/read chains of 5 generations are checked for drift offline.",
            "Trusts rv/ref/osu.py as the reading of the .osu format; tolerances 1 ms for note/sample times, 1e-9 relative for bpm/SV."),
    "C02": ("reference-interpreter monitor on SMMapSet.read (exact Fraction integrator)",
            "Every SMMapSet.read execution on generated .sm texts (12 chart types, 1-4 charts, all symbols, comments, tempo changes on the 1/48 grid) and the bundled corpus is compared online with an independent .sm interpreter and exact tempo integration.",
            "Trusts rv/ref/sm.py and rv/ref/timing.py; out-of-domain inputs (stops, rows not multiple of 4) are counted, never judged."),
    "C03": ("reference-interpreter monitor on SMMapSet.write + read-back/second-generation checks",
            "Every SMMapSet.write execution on generated in-memory mapsets (built, read, rated, converted) is parsed by the independent interpreter and compared with memory under the exact / 1/96-beat rule; headers are read back through the real reader and the second generation compared.",
            "Trusts rv/ref/sm.py; the domain gate is computed with the reference grid, independent of the writer."),
    "C04": ("reference-interpreter monitor on BMSMap.read (time-ordered LN pairing, exact integrator)",
            "Every BMSMap.read execution on generated BMS texts (5 layouts, any subdivision, channel 03/08 tempo changes, shuffled / split lines, LNOBJ) and the corpus is compared with an independent interpreter.",
            "Trusts rv/ref/bms.py; one open known finding (tempo-change positions finer than the snapper) matched by mechanism."),
    "C05": ("reference-interpreter monitor on BMSMap.write",
            "Every BMSMap.write execution on generated charts (5 layouts, up to many tempo points on measure lines, on/off-grid times, samples) is parsed by the independent BMS interpreter: syntax per line, object conservation, lanes, times (exact on grid, 1/192 beat otherwise), tempo timeline.",
            "Trusts rv/ref/bms.py; collisions are gated with the reference grid."),
    "C06": ("reference-model monitor on QuaMap.read/write over the YAML tree + schema/NaN invariant walker + inverse-pair trace check",
            "Every QuaMap.read / write execution on generated documents (omitted keys, quoting-hostile strings, hits only / holds only) and charts (incl. converter output) is compared with a tree-level reference; written documents are checked for key sets and value types; read(write) and write(read) pairs are compared.",
            "Trusts PyYAML as the YAML parser on both sides; both circulating defaults for omitted Bpm/Multiplier are accepted."),
    "C07": ("struct-level reference parser/generator monitor on O2JMapSet.read (exact integrator)",
            "Every O2JMapSet.read execution on generated OJN byte strings (0..many tempo events anywhere, all slot counts, LNs across packages/measures, shuffled packages, 3 levels) and the corpus is compared with an independent struct parser + exact integration.",
            "Trusts rv/ref/ojn.py (written from the format layout)."),
    "C08": ("postcondition contracts + schema/NaN invariant walker on all 16 converters (+merge), frozen-argument contract on the source",
            "Every convert() execution over sources of all five games in every history class (read, built, filtered, sorted, appended, stacked, rated, deep-copied) is checked for multiset equality of objects/tempo/SV with the source, declared-fields-only/no-missing-values, chart count, metadata mapping and an unchanged source.",
            "Exact float equality is demanded (no arithmetic is supposed to happen); metadata transliteration is accepted."),
    "C09": ("composition of independent format interpreters around read->convert->write executions (offline denotation comparison)",
            "For each of the 16 source->target pairs, generated source files are denoted by the source-format reference, pushed through the real read/convert/write, and the output is denoted by the target-format reference; objects, columns and tempo timelines are compared at the coarser resolution and the output is checked for validity.",
            "Trusts the five reference interpreters; constituent C01-C08 monitors also fire and attribute the first diverging stage."),
    "C10": ("Fraction reference-model monitors on TimingMap.offsets/snaps/beats, Snapper.snap, BpmList.to_timing_map + round-trip checker",
            "Every timing-engine call in generated workloads (1-8 changes, metronomes 1-8, negative offsets, unsorted/duplicated/ulp-adjacent queries; each constant-metronome list re-asked with the same ms and bpm under another metronome in the same process) is compared with exact rational integration; query order, snapping nearest/idempotent, and ms->position->ms round trips are judged per event.",
            "Trusts rv/ref/timing.py; the Snapper oracle holds under both readings of 'allowed fraction'."),
    "C11": ("invariant monitors (exact integrator on input and output) on reseat_bpm_changes_snap / from_bpm_changes_snap(reseat) / TimingMap.reseat + branch reach probes",
            "Every reseat execution on exhaustive half-beat-grid lists and random finer grids is checked for the five stated invariants; sys.monitoring probes record which of the reseat branches were taken.",
            "Trusts rv/ref/timing.py; one open known finding (extend branches for remainders in (0, 0.001])."),
    "C12": ("shadow-model monitor hooked on Map.stack / Stacker.__setitem__ / StackerLocIndexer.__setitem__ / MapSet.Stacker",
            "Every stack assignment in generated operation histories over charts of all five games is replayed on a plain per-list row model and compared cell by cell with the real lists after write-back; lengths, order, classes, unselected cells and lists lacking the column must be unchanged.",
            "Numeric equality (1 == 1.0); dtype drift is counted, not judged."),
    "C13": ("pre/post-state contracts on Map.rate / MapSet.rate / OsuMap.rate / SMMapSet.rate + composition/identity trace checks + write monitors on the rated chart",
            "Every rate() execution over charts of all five games and rates in (0.1, 4) is checked against the OLD snapshot (times / r, bpm * r, everything else equal, source untouched), rate(1) identity, rate(a).rate(b) = rate(ab), file-level time fields, and write/read-back of the rated chart.",
            "Relative 1e-12 for single operations, 1e-9 for compositions."),
    "C14": ("frozen-argument contracts (snapshot/compare) on every listed operation + active aliasing probes on results documented as copies",
            "Every listed operation executed in generated sequences over charts of all games is wrapped by a snapshot contract on all chart/list arguments (values, columns, dtypes, row labels, metadata); results documented as copies are mutated through every path and the input re-compared.",
            "Snapshot comparison is the verdict."),
    "C15": ("offline pair checker over recorded canonical denotations of f(chart) vs f(permuted chart)",
            "For each listed operation f, the chart and 2-4 row permutations of it are run through the real f; canonical denotations (reference-parsed files, sorted multisets, scalars, step functions) are recorded and compared pairwise.",
            "Generator avoids inputs whose definition is order-dependent (coincident SVs with different multipliers, dominant-bpm ties)."),
    "C16": ("contracts on every TimedList method + offline RowSeq model replay over logged operation histories + schema invariant",
            "Histories of 1-15 list operations over all 26 list classes are executed on the real lists while every call is compared with the same operation on a plain Python sequence of rows; every produced list is checked for declared fields only.",
            "Stability of sort among equal offsets is not demanded."),
    "C17": ("reference-rule monitor on full_ln (per-column rule with tie enumeration)",
            "Every full_ln execution over charts of all five games (chords, ties, single-note/empty columns, hits/holds mix) and gap/threshold grids is compared with the per-column rule; conservation, 'does not reach next note', unchanged other lists and unchanged input are judged.",
            "Tie groups up to 3 enumerated; larger are out of domain."),
    "C18": ("conservation/capacity/explanation clause monitor on hitsound_copy",
            "Every hitsound_copy execution over generated pairs of osu charts is judged on six clauses: notes equal target's, per-time per-type counts bounded by the source, capacity rule, named-sample conservation, every result sound explained by the source, inputs unchanged.",
            "File names containing ';' are out of domain (the algorithm's join character)."),
    "C19": ("step-function reference-model monitor on dominant_bpm / scroll_speed / sv_normalize",
            "Every call over generated charts (1-8 tempo points, SVs before/at/between tempo points, overrides) is compared with exact step-function integration; both readings of 'last object' and both precedences at exact coincidence are accepted.",
            "Near-ties excluded by a 1 ms margin; ties judged with the any-maximal rule."),
    "C20": ("partition/window invariant monitor on Pattern.group + brute-force product reference on PtnCombo.combinations / templates / filters",
            "Every from_note_lists(), group() and combinations() execution over generated note sets (ties, repeated columns, hold tails, all windows, jack settings, sizes 2-4, all filter options) is checked against partition/window invariants and a brute-force itertools.product with reference filter semantics.",
            "Reference option expansions derived from the documented options."),
}

NOT_YET = "check not built yet in this session (runtime monitoring applies; see DESIGN.md section 2)"


def main():
    checks = []
    na = []
    for pid in sorted(T):
        tech, text, note = T[pid]
        if os.path.exists(os.path.join(HERE, "checks", f"{pid}.py")):
            checks.append(dict(
                property_id=pid,
                quick_cmd=f"./vcheck {pid} --tier quick",
                thorough_cmd=f"./vcheck {pid} --tier thorough",
                evidence_file=f"/verif/evidence/{pid}.json",
                replay_cmd_template=f"./vcheck {pid} --replay {{path}}",
                engine="rv",
                level_claimed=dict(category="exploration", text=text + " Held means held on the executions observed (counts in the evidence file).",
                                   design_ref=f"DESIGN.md section 2, {pid}"),
                level_note=note,
                technique="runtime monitoring: " + tech,
            ))
        else:
            na.append(dict(property_id=pid, reason=NOT_YET))
    man = dict(
        version=1,
        setup_cmd="./setup.sh",
        hooks=dict(
            guard="REAMBER_VERIF",
            enable="no source hooks: monitors are attached from the harness (class-attribute wrapping + sys.monitoring) when REAMBER_VERIF=1; checks import reamber from $VERIF_REPO (default /repo) working tree",
            baseline_off_cmd="cd /repo && /venv/bin/python -m pytest -ra -q -p no:cacheprovider --timeout=900 --continue-on-collection-errors",
            source_commits=[],
            add_only=True,
        ),
        engines=[dict(name="rv", path="/verif/rv", serves_properties=[c["property_id"] for c in checks],
                      kind_free_text="Python runtime-monitoring framework: monitors wrapped around the real reamber functions, reference interpreters/models as oracles, sharded seeded workloads, sys.monitoring reach probes, known-finding matching by mechanism")],
        checks=checks,
        notes="exit codes: 0 held on everything observed, 1 VIOLATION, 2 INCONCLUSIVE (deciding monitor judged nothing / shard watchdog). VERIF_SEED and VERIF_TIER are honoured; VERIF_REPO points the checks at another working tree. Next to inputs and call histories the checks explore process configurations under which the unchanged tree gives the same answers: every fifth case runs under pandas copy-on-write (VERIF_PANDAS_COW_EVERY overrides; 0 = off), every fourth read_file comparison stores the text with a UTF-8 byte order mark and every fourth with CRLF line ends, and C01 / C03 / C06 start one child interpreter under LC_ALL=C with UTF-8 mode off for write_file / read_file. Every shard also runs an unjudged battery of unrelated public calls (rv/prelude.py: generic list classes, snappers with other divisions, timing maps, one small chart per game, a pattern grouping) before its first case or after five cases, so that state kept at module or class level by earlier calls is in place.",
        not_applicable=na,
    )
    p = os.path.join(HERE, "MANIFEST.json")
    with open(p, "w") as f:
        json.dump(man, f, indent=1)
    try:
        import jsonschema
        jsonschema.validate(man, json.load(open("/root/.vp/MANIFEST.schema.json")))
        print("MANIFEST valid;", len(checks), "checks,", len(na), "not claimed")
    except ImportError:
        print("written (jsonschema not importable here);", len(checks), "checks")


if __name__ == "__main__":
    main()
