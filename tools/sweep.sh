#!/bin/sh
# tools/sweep.sh "<seeds>" [tier] [checks...]: runs checks for several seeds; prints one verdict line per run.
SEEDS="${1:-0 1 2 3 4}"; TIER="${2:-quick}"; shift 2 2>/dev/null
CHECKS="$*"; [ -z "$CHECKS" ] && CHECKS=$(ls "$(dirname "$0")/../checks" | grep '^C[0-9]*\.py$' | sed 's/\.py//')
cd "$(dirname "$0")/.."
for c in $CHECKS; do for s in $SEEDS; do
  OUT=$(VERIF_SEED=$s ./vcheck $c --tier $TIER 2>&1); RC=$?
  echo "$c seed=$s tier=$TIER rc=$RC $(echo "$OUT" | grep -E 'VIOLATION|INCONCLUSIVE|KNOWN-FINDING' | cut -c1-160 | tr '\n' ' ')"
done; done
