"""tools/viol.py Cxx [N]: summarise replay files of the last run by monitor/clause/feature (N = chars of example case)."""
import json,glob,sys,collections
prop=sys.argv[1]
c=collections.Counter()
ex={}
for f in glob.glob(f'/verif/replays/{prop}/*.json'):
    v=json.load(open(f))
    k=(v['monitor'],v['clause'],json.dumps(v['feature'],sort_keys=True), (v.get('case') or {}).get('cls'))
    c[k]+=1; ex.setdefault(k,(f,v))
for k,n in sorted(c.items()):
    print(n,k)
    if len(sys.argv)>2:
        f,v=ex[k]; print('   ',f); print('   ',v['msg'][:300]); print('    case:',json.dumps(v.get('case'))[:int(sys.argv[2])])
