#!/usr/bin/env python3
"""tools/refactors.py [names...] : property-preserving refactors (refactors/*.diff) must leave every check silent.
Each patch is applied to a scratch copy of /repo's working tree; the checks named in CHECKS[name] (default: all)
run with VERIF_REPO pointing at the copy.  Prints one line per (refactor, check); any rc=1 is a false alarm."""
import glob, os, shutil, subprocess, sys, tempfile, json, time
HERE = os.path.dirname(os.path.dirname(os.path.abspath(__file__)))
CHECKS = {
    "stable_sorted": ["C16", "C14", "C15", "C01"], "append_reset_index": ["C16", "C14", "C18"], "osu_write_unsorted_lines": ["C01", "C15", "C09", "C13"],
    "full_ln_mergesort": ["C17", "C15"], "rate_reordered": ["C13", "C12", "C14"], "bms_lcm_threshold_50": ["C05", "C09"], "hitsound_no_presort": ["C18", "C15"],
    "sm_offset_9_decimals": ["C03", "C09", "C13"], "dominant_bpm_numpy": ["C19", "C15", "C14"], "between_single_mask": ["C16", "C14"],
    "cast_copy_values": ["C08", "C09", "C06", "C15"], "stacker_update_reordered": ["C12", "C13", "C17"],
}
names = sys.argv[1:] or sorted(os.path.basename(p)[:-5] for p in glob.glob(HERE + "/refactors/*.diff"))
bad = 0
for n in names:
    d = tempfile.mkdtemp(prefix="refactor_")
    try:
        subprocess.run(["cp", "-r", "/repo/reamber", d + "/reamber"], check=True)
        os.symlink("/repo/rsc", d + "/rsc"); os.symlink("/repo/tests", d + "/tests")
        r = subprocess.run(["patch", "-p1", "-s", "-d", d, "-i", f"{HERE}/refactors/{n}.diff"], capture_output=True, text=True)
        if r.returncode:
            print(f"{n}: patch does not apply: {r.stdout[-200:]}"); continue
        for c in CHECKS.get(n) or sorted(os.path.basename(p)[:-3] for p in glob.glob(HERE + "/checks/C*.py")):
            t0 = time.time()
            r = subprocess.run([HERE + "/vcheck", c, "--tier", "quick"], capture_output=True, text=True,
                               env=dict(os.environ, VERIF_REPO=d, VERIF_EVIDENCE_DIR=d + "/evidence", VERIF_REPLAY_DIR=d + "/replays", VERIF_SCALE=os.environ.get("VERIF_SCALE", "0.5")))
            first = [l.strip()[:200] for l in r.stdout.split("\n") if l.strip().startswith("violation monitor=")][:1]
            print(f"{n} | {c}: rc={r.returncode} ({time.time() - t0:.0f}s) {first[0] if first else ''}")
            bad += r.returncode == 1
            with open(HERE + "/refactors/RESULTS.jsonl", "a") as f:
                f.write(json.dumps(dict(refactor=n, check=c, rc=r.returncode, first=first, at=time.strftime("%Y-%m-%d %H:%M"))) + "\n")
    finally:
        shutil.rmtree(d, ignore_errors=True)
print("false alarms:", bad)
