#!/bin/sh
# tools/mut.sh <check> <file-relative-to-repo> <sed-expr> [tier]
# Applies a one-line mutation to a scratch copy of /repo/reamber and runs the check against it.
set -e
CHECK="$1"; FILE="$2"; EXPR="$3"; TIER="${4:-quick}"
D=$(mktemp -d /tmp/mut.XXXXXX)
trap 'rm -rf "$D"' EXIT
cp -r /repo/reamber "$D/reamber"
ln -s /repo/rsc "$D/rsc"; ln -s /repo/tests "$D/tests"
sed -i -E "$EXPR" "$D/$FILE"
if diff -q "/repo/$FILE" "$D/$FILE" >/dev/null; then echo "MUTATION DID NOT APPLY"; exit 3; fi
diff "/repo/$FILE" "$D/$FILE" | head -6
set +e
VERIF_REPO="$D" VERIF_EVIDENCE_DIR="$D/evidence" VERIF_REPLAY_DIR="$D/replays" VERIF_SCALE="${VERIF_SCALE:-0.5}" /verif/vcheck "$CHECK" --tier "$TIER" > "$D/out.txt"; RC=$?; tail -4 "$D/out.txt"
echo "exit=$RC"
