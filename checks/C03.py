"""C03 — StepMania writing produces a file that denotes the in-memory mapset."""
from __future__ import annotations

PROP = "C03"
BUDGET = {
    "quick": dict(shards=16, cases=1280, deadline=70),
    "thorough": dict(shards=16, cases=10000, deadline=1200),
}
DECIDING = ["sm.write", "fileio.write_file", "c03.kf_witness"]
RULE = ("In-memory mapsets with objects of all seven kinds on k/d beats (d in the declared divisions) of their own tempo "
        "list: tempo changes on measure lines (exact clause) and off them (1/96-beat clause), selectable=False, "
        "leading empty measures, measures whose LCM exceeds 384, unsorted lists, 3/4/6/7/8-key chart types, 1..3 charts "
        "sharing a tempo list; plus mapsets obtained by reading generated .sm texts and by rate change. The monitor on "
        "SMMapSet.write parses the output with rv/ref/sm.py and compares with memory, then reads back through the real reader.")
TOLERANCES = {"exact": "1e-6 ms abs + 1e-9 rel", "grid": "1/96 beat at the slower adjacent tempo + 1e-6 ms"}
ASSUMPTIONS = ["rv/ref/sm.py is the trusted reading of the .sm format",
               "rows shorter than the chart's key count are tolerated (StepMania pads) and counted"]

CLASSES = ["tempo_on_measure_lines", "tempo_on_measure_lines", "tempo_off_measure", "tempo_off_measure", "single_tempo",
           "selectable_false", "leading_empty_measures", "big_lcm", "unsorted", "from_read", "from_read", "rated", "odd_mix", "write_edit_write"]


def gen(rng, tier, k):
    from rv.gen import sm as gsm
    from rv.gen import sm_mem

    cls = rng.choice(CLASSES)
    if cls == "from_read":
        text, _ = gsm.gen_text(rng, rng.choice(["plain", "measure_lines", "many_charts"]), max_measures=4)
        return dict(cls=cls, text=text)
    if cls == "rated":
        spec = sm_mem.gen_spec(rng, rng.choice(["tempo_on_measure_lines", "tempo_off_measure"]))
        spec["cls"] = "rated"
        spec["rate"] = rng.choice([0.5, 0.75, 1.5, 2.0, 1.1])
        return spec
    return sm_mem.gen_spec(rng, cls)


def setup(ctx):
    from rv import reach
    from rv.monitors import sm
    from reamber.sm.SMMap import SMMap

    reach.probe(SMMap.write, {
        "sm.write.empty_measure_padding": '* METRONOME))',
        "sm.write.rows": "lines[note.num][note.column] = note.char",
    })
    sm.install(ctx, read=False, write=True)


def kf_witnesses():
    from rv import core

    for f in core.load_known_findings().get("findings", []):
        if f["id"] == "KF-C03-tempo-change-off-the-48th-beat-grid":
            return f.get("pinned_outputs", [])
    return []


def written_denotation(spec):
    """What the written text of the mapset denotes (reference reading): objects and tempo points, ms rounded to 1e-6.
    A denotation, not the bytes: a change of number formatting that denotes the same chart is not a change."""
    from rv.gen import sm_mem as _sm
    from rv.ref import sm as rsm

    try:
        d = rsm.parse_sm(_sm.build(spec).write())
    except Exception as e:
        return "raises " + type(e).__name__
    return dict(tempo=[[round(float(t), 6), round(float(v), 6)] for t, v, _ in rsm.timeline(d).points()],
                charts=[sorted([k, c, round(float(t), 6), None if ln is None else round(float(ln), 6)] for k, c, t, ln in rsm.chart_objects_ms(d, ch)) for ch in d["charts"]])


def pinned(tier):
    return [dict(cls="c_locale")] + [dict(cls="kf_witness", sm_spec=w["spec"], expected=w["denotation"], wid=i) for i, w in enumerate(kf_witnesses())]


def run(ctx, case):
    if case.get("cls") == "c_locale":
        from rv.monitors import fileio
        return fileio.check_c_locale(ctx, "C03", "sm")
    if case.get("cls") == "kf_witness":
        # inputs of the open finding KF-C03: what the writer gives for them is recorded, any change is reported
        import json as _json

        with ctx.quiet():
            got = _json.loads(_json.dumps(written_denotation(case["sm_spec"])))
        if got != case["expected"]:
            ctx.violate("C03", "c03.kf_witness", "behaviour_changed",
                        f"pinned input {case['wid']} of KF-C03-tempo-change-off-the-48th-beat-grid: the written file no longer denotes what was recorded: recorded {str(case['expected'])[:200]}, now {str(got)[:200]}",
                        dict(spec=case["sm_spec"], recorded=case["expected"], now=got), dict(witness=True))
        else:
            ctx.held("c03.kf_witness", "recorded_output")
        return
    from reamber.sm.SMMapSet import SMMapSet
    from rv.gen import sm_mem

    try:
        if case["cls"] == "from_read":
            with ctx.quiet():
                ms = SMMapSet.read(case["text"])
        else:
            ms = sm_mem.build(case)
            if case["cls"] == "rated":
                ms = ms.rate(case["rate"])
    except Exception as e:
        ctx.counters["c03|build_failed"] += 1
        return
    try:
        ms.write()
    except Exception:
        pass
    if case["cls"] == "write_edit_write":
        # the same mapset object, edited in place between two writes: everything delayed by d, then the tempo doubled
        # around the first tempo point (both edits keep the mapset inside the writer's domain)
        try:
            d = 37.5
            for m in ms.maps:
                for tl in m.objs.values():
                    if len(tl):
                        tl.offset += d
            ms.offset += d
            ms.write()
            t0 = ms.offset
            for m in ms.maps:
                for tl in m.objs.values():
                    if len(tl):
                        tl.offset = (tl.offset - t0) / 2 + t0
                        if "length" in tl.df.columns:
                            tl.length /= 2
                m.bpms.bpm *= 2
            ms.write()
        except Exception:
            ctx.counters["c03|edit_sequence_raised"] += 1
    if ctx.cur_k is not None and ctx.cur_k % 4 == 1:
        from rv.monitors import fileio
        fileio.check_write_file(ctx, "C03", ms, kind="text")
