"""C07 — O2Jam reading places every note and tempo change at the time its measure implies."""
from __future__ import annotations

import glob
import os

PROP = "C07"
BUDGET = {
    "quick": dict(shards=16, cases=6400, deadline=70),
    "thorough": dict(shards=16, cases=32000, deadline=1200),
}
DECIDING = ["ojn.read", "fileio.read_file"]
RULE = ("Generated OJN byte strings (struct-level builder written from the format layout): 0, 1, 2 and up to 25 tempo events before / at / "
        "after notes, at measure 0 and after the last note, several per package; slot counts 1..192; notes on all seven columns; long "
        "notes within a package, across packages and measures; three levels with different contents, an empty level; random header "
        "fields; plus the two bundled .ojn files (pinned). The monitor on O2JMapSet.read compares every level's hits, long notes "
        "(column, ms, length, volume, pan), all tempo points (ms, bpm) and the header fields with rv/ref/ojn.py.")
TOLERANCES = {"ms": "1e-6 abs + 1e-6 rel (positions are float32/float in the code)"}
ASSUMPTIONS = ["rv/ref/ojn.py is the trusted reading of the layout", "header strings are NUL-padded ASCII", "packages in measure order, no measure-fraction packages"]

CLASSES = ["plain", "plain", "no_tempo", "one_tempo", "many_tempo", "tempo_after_last", "tempo_at_measure_0", "empty_level"]


def pinned(tier):
    repo = os.environ.get("VERIF_REPO", "/repo")
    return [dict(cls="corpus", path=p) for p in sorted(glob.glob(os.path.join(repo, "rsc/maps/o2jam/*.ojn")))]


def gen(rng, tier, k):
    from rv.gen import ojn as gojn

    cls = rng.choice(CLASSES)
    spec = gojn.gen_spec(rng, cls)
    spec["cls"] = cls
    return spec


def setup(ctx):
    from rv import reach
    from rv.monitors import ojn
    from reamber.o2jam.O2JMap import O2JMap

    ojn.install(ctx)
    reach.probe(O2JMap.read_pkgs, {"ojn.tempo_sweep": "bpm_val = bpm_.bpm", "ojn.note_time": "note_measure_dict[note_measure] = offset"})


def run(ctx, case):
    from reamber.o2jam.O2JMapSet import O2JMapSet
    from rv.gen import ojn as gojn

    if case["cls"] == "corpus":
        with open(case["path"], "rb") as f:
            b = f.read()
    else:
        b = gojn.build(case)
    try:
        O2JMapSet.read(b)
    except Exception:
        pass
    if ctx.cur_k is not None and ctx.cur_k % 5 == 1:
        from rv.monitors import fileio
        fileio.check_read_file(ctx, "C07", O2JMapSet, b)
