"""C09 — read -> convert -> write yields a valid target file with the source's timeline."""
from __future__ import annotations

PROP = "C09"
BUDGET = {
    "quick": dict(shards=16, cases=2880, deadline=90),
    "thorough": dict(shards=16, cases=24000, deadline=1500),
}
DECIDING = ["c09.chain"]
RULE = ("For each of the 16 source->target pairs: an abstract grid chart (keys the target supports, 1..3 tempo changes on measure lines, "
        "hits and holds on quarter beats >= 2 grid steps apart per column, first tempo point at 0 / positive / negative ms, optionally an empty right-most lane where the key count is declared, tempo entries listed out of time order in osu / Quaver sources) is rendered as a "
        "source file (.osu text, .qua document, .sm text, BMS lines, OJN bytes); the source-format reference denotes it (and must agree with "
        "the abstract chart); the real reader, converter and writer run; the target-format reference denotes the output. Objects, columns "
        "(with the converter's explicit shift) and the tempo timeline must agree within the coarser resolution and the output must be "
        "well-formed for its format. The C01-C08 monitors are installed too and attribute a failure to the first diverging stage.")
TOLERANCES = {"osu / Quaver side": "1 ms", "StepMania target": "1/96 beat at the slower adjacent tempo", "BMS target": "1/192 beat at the slower adjacent tempo",
              "bpm": "1e-3 relative (BMS lines carry 3 decimals)"}
ASSUMPTIONS = ["the five references are the trusted readings of the formats", "BMS target files are written with the BME layout"]

PAIRS = ["BMSToOsu", "BMSToQua", "BMSToSM", "O2JToBMS", "O2JToOsu", "O2JToQua", "O2JToSM", "OsuToBMS", "OsuToQua", "OsuToSM",
         "QuaToBMS", "QuaToOsu", "QuaToSM", "SMToBMS", "SMToOsu", "SMToQua"]
G = {"BMS": "bms", "O2J": "o2j", "Osu": "osu", "Qua": "qua", "SM": "sm"}
KEYS_OK = {"osu": list(range(1, 11)), "qua": [4, 7], "sm": [3, 4, 6, 7, 8], "bms": list(range(1, 9)), "o2j": [7]}


def gen(rng, tier, k):
    from rv.gen import xfmt

    name = PAIRS[k % len(PAIRS)]
    a, b = name.split("To")
    sg, tg = G[a], G[b]
    keys = rng.choice(sorted(set(KEYS_OK[sg]) & set(KEYS_OK[tg])))
    t0 = 0.0 if sg in ("bms", "o2j") else None
    declared = name in ("QuaToOsu", "SMToOsu", "O2JToOsu", "OsuToQua", "SMToQua", "OsuToBMS", "QuaToBMS", "SMToBMS", "O2JToBMS")
    ab = xfmt.gen_abstract(rng, keys, t0=t0)
    if declared and keys > 1 and rng.random() < 0.4:
        # the key count is declared by the source (CircleSize / Mode / chart type / layout): the right-most lane may be empty
        kept = [n for n in ab["notes"] if n[0] != keys - 1]
        if kept:
            ab["notes"] = kept
            ab["last_lane_empty"] = True
    if sg == "osu" and rng.random() < 0.3:
        ab["osu_meter"] = rng.choice([3, 5, 7])  # the time signature of an osu timing point does not move anything in time
    if sg in ("osu", "qua") and len(ab["tempo"]) > 1 and rng.random() < 0.4:
        ab["tempo_rows_reversed"] = True  # tempo entries listed out of time order in the source file
    if rng.random() < 0.1:
        only = [n for n in ab["notes"] if n[2] is not None]
        if only and not ab.get("last_lane_empty") and {n[0] for n in only} == set(range(keys)):   # every lane still in use: the key count stays inferable
            ab["notes"] = only   # a chart of long notes only (the hit list of the source is empty)
            ab["holds_only"] = True
    if sg == "o2j" and rng.random() < 0.35:
        ab["ojn_event_at_zero"] = rng.choice([v for v in (111.0, 90.0, 240.0) if v != ab["tempo"][0][1]])  # the header tempo, overridden at 0 ms by an event
    if sg == "sm" and rng.random() < 0.4:
        # a .sm file carries several charts, each with its own chart type (key count); tempo and offset belong to the file
        ab["extra"] = []
        for _ in range(rng.choice([1, 1, 2])):
            k2 = rng.choice(sorted(set(KEYS_OK[sg]) & set(KEYS_OK[tg])))
            e = xfmt.gen_abstract(rng, k2, n_meas=ab["n_meas"], t0=ab["t0"], n_tempo=1)
            ab["extra"].append(dict(keys=k2, notes=e["notes"]))
    return dict(cls=name, pair=name, src=sg, tgt=tg, abstract=ab, meta=dict(title=rng.choice(["Title", "a b", "Song 2"]), artist=rng.choice(["Artist", "DJ X"]),
                                                                             creator="me", version=rng.choice(["Hard", "7"])))


def setup(ctx):
    from rv.monitors import bms, convert, ojn, osu, qua, sm

    osu.install(ctx)
    qua.install(ctx)
    sm.install(ctx)
    bms.install(ctx)
    ojn.install(ctx)
    convert.install(ctx)


def tol_at(t, tempo, grid_div, ms_side):
    from rv.ref.den import bpm_at

    lens = [60000.0 / bpm_at(tempo, t), 60000.0 / bpm_at(tempo, t - 1e-6)]
    if grid_div:
        for ms, v in tempo:
            if abs(ms - t) <= max(lens) / grid_div:
                lens.append(60000.0 / v)
    grid = max(lens) / grid_div if grid_div else 0.0
    return grid + (1.0 if ms_side else 0.0) + 1e-6


def run(ctx, case):
    import importlib

    from reamber.bms.BMSChannel import BMSChannel
    from reamber.bms.BMSMap import BMSMap
    from reamber.o2jam.O2JMapSet import O2JMapSet
    from reamber.osu.OsuMap import OsuMap
    from reamber.quaver.QuaMap import QuaMap
    from reamber.sm.SMMapSet import SMMapSet
    from rv.gen import xfmt
    from rv.monitors.bms import lanes_of
    from rv.ref import den as D

    ab, sg, tg = case["abstract"], case["src"], case["tgt"]
    lanes = lanes_of(BMSChannel.BME)
    with ctx.quiet():
        if sg == "osu":
            data = xfmt.render_osu(ab, case["meta"]); dA = D.den_osu(data)
        elif sg == "qua":
            data = xfmt.render_qua(ab, case["meta"]); dA = D.den_qua(data)
        elif sg == "sm":
            data = xfmt.render_sm(ab, case["meta"]); dA = D.den_sm(data)
        elif sg == "bms":
            data = xfmt.render_bms(ab, lanes, case["meta"]); dA = D.den_bms(data, lanes)
        else:
            data = xfmt.render_ojn(ab, case["meta"]); dA = D.den_ojn(data)[:1]
        abs_all = [ab] + [dict(ab, keys=e["keys"], notes=e["notes"]) for e in ab.get("extra", [])]
        ms_src = sg in ("osu", "qua")
        ok = len(dA) == len(abs_all)
        for d_, ab_ in zip(dA, abs_all):
            want = xfmt.abstract_den(ab_)
            ok = ok and len(d_["objects"]) == len(want["objects"]) and not d_["problems"] and all(
                a[0] == b[0] and abs(a[1] - b[1]) < (1 if ms_src else 1e-6) and ((a[2] is None) == (b[2] is None)) and (a[2] is None or abs(a[2] - b[2]) < (1 if ms_src else 1e-6))
                for a, b in zip(sorted(d_["objects"]), sorted(want["objects"])))
        if not ok:
            ctx.counters["harness.error"] += 1
            ctx.notes.append(f"source rendering disagrees with the abstract chart ({case['pair']}): {dA[0]['problems']}")
            return
    feat = dict(target=tg, source=sg, first_tempo_ms_nonzero=ab["t0"] != 0, several_charts=bool(ab.get("extra")))
    wit = dict(pair=case["pair"], abstract=ab, source=(data if isinstance(data, (str, list)) else data.hex())[:200] if False else None)
    # ---- the real chain ---------------------------------------------------
    stage = "read"
    try:
        if sg == "osu":
            src = OsuMap.read(data)
        elif sg == "qua":
            src = QuaMap.read(data)
        elif sg == "sm":
            src = SMMapSet.read(data)
        elif sg == "bms":
            src = BMSMap.read(data, BMSChannel.BME)
        else:
            src = O2JMapSet.read(data)
        stage = "convert"
        cls = getattr(importlib.import_module("reamber.algorithms.convert." + case["pair"]), case["pair"])
        out = cls.convert(src)
        outs = out if isinstance(out, list) else [out]
        if sg == "o2j":
            outs = outs[:1]
        if ctx.cur_k is not None and ctx.cur_k % 2 == 0:
            # another chart of the same shape converted before the first result is written: the first result must not move
            stage = "second conversion"
            with ctx.quiet():
                other = src.deepcopy()
                for m_ in (other.maps if hasattr(other, "maps") else [other]):
                    if sum(len(v) for v in m_.objs.values()):
                        m_.stack().offset += 4321.0
            cls.convert(other)
        stage = "write"
        texts = [o.write(BMSChannel.BME) if tg == "bms" else o.write() for o in outs]
    except Exception as e:
        from rv import core
        return ctx.violate("C09", "c09.chain", "raises", f"{case['pair']}: {stage} raised {type(e).__name__}: {e}", dict(wit, tb=core.short_tb(e)), dict(feat, stage=stage))
    shift = 1 if case["pair"] == "O2JToBMS" else 0
    with ctx.quiet():
        dB = []
        for t in texts:
            try:
                if tg == "osu":
                    dB += D.den_osu(t)
                elif tg == "qua":
                    dB += D.den_qua(t)
                elif tg == "sm":
                    dB += D.den_sm(t)
                else:
                    dB += D.den_bms(t, lanes)
            except Exception as e:
                return ctx.violate("C09", "c09.chain", "invalid_output", f"{case['pair']}: the written file cannot be parsed: {type(e).__name__}: {e}", wit, feat)
        wit["output"] = [(t if isinstance(t, str) else ("\n".join(map(str, t)) if isinstance(t, list) else t.decode("shift_jis", "replace")))[:2500] for t in texts][:1]
        if len(dB) != len(dA):
            return ctx.violate("C09", "c09.chain", "chart_count", f"{case['pair']}: {len(dA)} source chart(s), {len(dB)} written", wit, feat)
        for a, b, ab_ in zip(dA, dB, abs_all):
            if b["problems"]:
                return ctx.violate("C09", "c09.chain", "invalid_output", f"{case['pair']}: written file is malformed: {b['problems'][:3]}", wit, feat)
            if tg == "osu" and b.get("keys") != ab_["keys"]:
                return ctx.violate("C09", "c09.chain", "key_count", f"{case['pair']}: source has {ab_['keys']} keys, the .osu says CircleSize {b.get('keys')}", wit, feat)
            if tg == "qua" and b.get("mode") != {4: "Keys4", 7: "Keys7", 8: "Keys8"}.get(ab_["keys"]):
                return ctx.violate("C09", "c09.chain", "key_count", f"{case['pair']}: source has {ab_['keys']} keys, the .qua says Mode {b.get('mode')}", wit, feat)
            if tg == "sm" and b.get("type") != xfmt.SM_TYPE.get(ab_["keys"]):
                return ctx.violate("C09", "c09.chain", "key_count", f"{case['pair']}: source has {ab_['keys']} keys, the .sm chart type is {b.get('type')}", wit, feat)
            A = sorted((c + shift, t0, t1) for c, t0, t1 in a["objects"])
            B = sorted(b["objects"])
            if [(c, t1 is None) for c, _, t1 in A] != [(c, t1 is None) for c, _, t1 in B] and sorted((c, t1 is None) for c, _, t1 in A) != sorted((c, t1 is None) for c, _, t1 in B):
                return ctx.violate("C09", "c09.chain", "objects", f"{case['pair']}: objects per column / kind differ: source {len(A)}, target {len(B)}", dict(wit, A=A[:20], B=B[:20]), feat)
            grid = {"sm": 96, "bms": 192}.get(tg, 0)
            ms_side = sg in ("osu", "qua") or tg in ("osu", "qua")
            tempoA = D.step(a["tempo"])
            deltas = []
            worst = None
            for (ca, ta0, ta1), (cb, tb0, tb1) in zip(A, B):
                for x, y in ((ta0, tb0), (ta1, tb1)):
                    if x is None:
                        continue
                    deltas.append(y - x)
                    if abs(y - x) > tol_at(x, tempoA, grid, ms_side) and worst is None:
                        worst = (ca, x, y)
            tdel = []
            tb = D.step(b["tempo"])
            tbad = None
            for ti, (ms, v) in enumerate(tempoA):
                near = tb[ti] if len(tb) == len(tempoA) else min(tb, key=lambda p: abs(p[0] - ms))
                tdel.append(near[0] - ms)
                if abs(near[0] - ms) > tol_at(ms, tempoA, grid, ms_side) or abs(near[1] - v) > 1e-3 * v:
                    tbad = tbad or (ms, v, near)
            if len(tb) != len(tempoA) and tbad is None:
                tbad = ("count", len(tempoA), len(tb))
            if worst or tbad:
                t0 = ab["t0"]
                alld = deltas + tdel
                const = t0 != 0 and alld and all(abs(d + t0) <= 1.0 + 60000.0 / min(v for _, v in tempoA) / max(grid, 96) for d in alld)
                f2 = dict(feat, all_times_shifted_by_minus_first_tempo_point=bool(const))
                if worst:
                    return ctx.violate("C09", "c09.chain", "timeline_shift" if const else "time",
                                       f"{case['pair']}: object on column {worst[0]} denoted at {worst[1]} ms by the source is at {worst[2]} ms in the output"
                                       + (f" (every time is moved by -{t0} ms, the first tempo point)" if const else ""), dict(wit, A=A[:12], B=B[:12]), f2)
                return ctx.violate("C09", "c09.chain", "timeline_shift" if const else "tempo", f"{case['pair']}: tempo timeline differs: {tbad}; source {tempoA[:5]}, output {tb[:5]}", wit, f2)
        ctx.held("c09.chain", "denotation")
        ctx.state("c09.pair", (case["pair"], ab["t0"] != 0, len(ab["tempo"]) > 1, len(ab.get("extra", []))))
