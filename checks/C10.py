"""C10 — timing engine: positions <-> milliseconds, snapping, cumulative beats."""
from __future__ import annotations

from fractions import Fraction as F

from rv.ref import timing as rt

PROP = "C10"
BUDGET = {
    "quick": dict(shards=8, cases=2400, deadline=60),
    "thorough": dict(shards=16, cases=60000, deadline=900),
}
DECIDING = ["tm.offsets", "tm.snaps", "tm.beats", "snapper.snap", "tm.from_snap",
            "bpmlist.to_timing_map", "c10.roundtrip"]
RULE = ("Seeded class-based generator of tempo-change lists (1..8 changes, bpm 1..1000 incl. non-integers, "
        "metronomes 1..8 changing on measure lines, tempo-only changes anywhere on the snap grid, negative/zero/large "
        "initial offsets) with query multisets (unsorted, duplicated, at change positions, in the last segment, one ulp "
        "either side of a measure line, on- and off-grid). Every TimingMap/Snapper/BpmList call is judged by the "
        "Fraction model attached to the real method.")
TOLERANCES = {"ms": "1e-6 abs + 1e-9 rel", "on_grid": "1e-7 beat", "off_grid": "distance to nearest declared division (<= 1/192 beat)"}
ASSUMPTIONS = ["rv/ref/timing.py (exact Fraction integrator) is the trusted model",
               "metronome changes take effect on measure lines; tempo-only changes anywhere"]

GRID_DENS = [1, 2, 3, 4, 6, 8, 12, 16, 24, 32, 48, 64, 96]


def fs(x: F) -> str:
    return f"{x.numerator}/{x.denominator}"


def pf(s) -> F:
    return F(s)


def gen_bpm(rng):
    r = rng.random()
    if r < 0.5:
        return float(rng.choice([60, 90, 100, 120, 128, 150, 174, 180, 200, 240, 300, 1000, 1]))
    if r < 0.8:
        return round(rng.uniform(1, 1000), rng.choice([0, 1, 2, 3]))
    return rng.uniform(1, 1000)


def gen_timeline(rng, cls):
    n = 1 if cls == "single" else rng.randint(2, 8)
    if cls == "mixed_metronome_measure_lines":
        met = rng.randint(1, 8)
    elif cls == "const_other":
        met = rng.choice([1, 2, 3, 5, 6, 7, 8])
    else:
        met = 4
    changes = [[0, "0/1", gen_bpm(rng), met]]
    m, b = 0, F(0)
    for _ in range(n - 1):
        if cls == "mixed_metronome_measure_lines":
            m += rng.randint(1, 4)
            b = F(0)
            met = rng.randint(1, 8)
        else:
            # advance by a grid amount of beats
            d = F(rng.randint(1, 3 * 96), rng.choice(GRID_DENS))
            if rng.random() < 0.3:
                d = F(rng.randint(1, 12))
            tot = b + d
            m += int(tot // met)
            b = tot - (tot // met) * met
        changes.append([m, fs(b), gen_bpm(rng), met])
    initial = rng.choice([0.0, 0.0, -1234.5, -50.0, 17.0, 1000.25, 250000.0, rng.uniform(-5000, 5000)])
    return initial, changes


def pinned(tier):
    return [dict(cls="repo_test_suite", select=['tests/unit_tests/timing', 'tests/unit_tests/sm', 'tests/unit_tests/bms'])] if tier == "thorough" else []


def gen(rng, tier, k):
    cls = rng.choice(["mixed_metronome_measure_lines", "const4_anywhere", "const4_anywhere", "const_other", "single", "snapper_only", "ms_based_off_grid"])
    if cls == "ms_based_off_grid":
        n = rng.randint(2, 7)
        t = rng.choice([0.0, -300.0, 1234.5])
        pts = []
        for _ in range(n):
            pts.append([t, gen_bpm(rng)])
            t += rng.choice([500.0, 2000.0, 4000.0]) * rng.randint(1, 4) + rng.choice([0.0, 1.0, 3.7, 7.0, 11.3])   # a few ms after a beat line
        return dict(cls=cls, points=pts, queries=[rng.random() for _ in range(rng.randint(3, 12))])
    if cls == "snapper_only":
        divs = rng.choice([list(rt.DEFAULT_DIVISIONS), [1, 2, 4, 8, 16], [1, 3, 6, 12], [1, 2, 3, 4, 6, 8, 12, 16, 24, 32, 48], [5, 7], [1],
                           [16, 12, 8, 4, 3], [96, 1, 48, 2], [12, 16, 4]])  # the order of the divisions carries no meaning
        xs = []
        for _ in range(rng.randint(5, 25)):
            r = rng.random()
            q = rng.choice([0, 0, 1, 3, 17])
            if r < 0.35:
                xs.append(q + rng.random())
            elif r < 0.7:
                d = rng.choice(divs)
                xs.append(q + rng.randint(0, d) / d)
            elif r < 0.85:
                d = rng.choice(divs)
                xs.append(q + rng.randint(0, d) / d + rng.choice([-1, 1]) * rng.choice([1e-13, 1e-9, 1e-6, 1e-4]))
            else:
                # midpoints between neighbouring fractions (ties)
                d1, d2 = rng.choice(divs), rng.choice(divs)
                xs.append(q + (rng.randint(0, d1) / d1 + rng.randint(0, d2) / d2) / 2)
                # ... and a hair to either side of a midpoint: the nearer neighbour is the nearest, however close the call
                xs.append(xs[-1] + rng.choice([-1, 1]) * rng.choice([2e-10, 1e-10, 4e-10, 3e-11]))
                xs.append(q + 1 / (2 * max(divs)) - rng.choice([2e-10, 4e-10]))
        xs = [abs(x) for x in xs]
        return dict(cls=cls, divisions=divs, xs=xs)
    initial, changes = gen_timeline(rng, cls)
    last_m = changes[-1][0]
    # position queries (any fraction is a legal position)
    pq = []
    for _ in range(rng.randint(1, 12)):
        r = rng.random()
        if r < 0.25:
            c = rng.choice(changes)
            pq.append([c[0], c[1]])
        elif r < 0.45:
            pq.append([last_m + rng.randint(0, 5), fs(F(rng.randint(0, 95), 96) * 0)])
        else:
            m = rng.randint(0, last_m + 3)
            pq.append([m, fs(F(rng.randint(0, 7 * 96), rng.choice(GRID_DENS + [5, 7, 9, 1000])))])
    if pq and rng.random() < 0.5:
        pq.append(list(rng.choice(pq)))  # duplicate
    if rng.random() < 0.3:
        pq.sort(key=lambda q: (q[0], F(q[1])))
    # ms queries: described symbolically, resolved against the exact model in run()
    mq = []
    for _ in range(rng.randint(1, 12)):
        r = rng.random()
        if r < 0.45:
            mq.append(["grid", rng.randint(0, last_m + 3), fs(F(rng.randint(0, 8 * 96), rng.choice([1, 2, 3, 4, 6, 8, 12, 16, 32, 64, 96])))])
        elif r < 0.6:
            mq.append(["change", rng.randrange(len(changes))])
        elif r < 0.75:
            mq.append(["ulp", rng.randint(0, last_m + 3), rng.choice([-1, 1])])
        else:
            mq.append(["free", rng.random(), rng.randint(0, 3)])
    if mq and rng.random() < 0.5:
        mq.append(list(rng.choice(mq)))
    return dict(cls=cls, initial=initial, changes=changes, pos_queries=pq, ms_queries=mq,
                divisions=rng.choice([None, None, [1, 2, 4, 8, 16], [1, 2, 3, 4, 6, 8, 12, 16, 24, 32, 48], [16, 8, 4, 2, 1], [48, 3, 16]]),
                rows_seed=rng.randrange(10**6), edit=rng.random() < 0.35)


def setup(ctx):
    from rv.monitors import timing

    timing.install(ctx, c10=True, c11=False)


def run(ctx, case):
    if case.get("cls") == "repo_test_suite":
        from rv.suite import run_repo_tests
        return run_repo_tests(ctx, case.get("select"))
    import math

    import numpy as np
    from reamber.algorithms.timing.TimingMap import TimingMap
    from reamber.algorithms.timing.utils.BpmChangeSnap import BpmChangeSnap
    from reamber.algorithms.timing.utils.Snapper import Snapper
    from reamber.algorithms.timing.utils.snap import Snap
    from reamber.base.Bpm import Bpm
    from reamber.base.lists.BpmList import BpmList

    if case["cls"] == "snapper_only":
        sn = Snapper(case["divisions"])
        for x in case["xs"]:
            try:
                sn.snap(x)
            except Exception:
                pass
        return

    if case["cls"] == "ms_based_off_grid":
        from reamber.algorithms.timing.utils.BpmChangeOffset import BpmChangeOffset

        pts = case["points"]
        try:
            tmo = TimingMap.from_bpm_changes_offset([BpmChangeOffset(bpm=float(v), metronome=4, offset=float(t)) for t, v in pts])
        except Exception:
            return
        span = pts[-1][0] - pts[0][0] + 4 * 60000 / pts[-1][1]
        qs = [pts[0][0] + q * span for q in case["queries"]]
        try:
            with ctx.quiet():
                back = tmo.offsets(list(tmo.snaps(qs, Snapper())))
        except Exception as e:
            return ctx.violate("C10", "c10.roundtrip", "raises", f"offsets(snaps(t)) raised {type(e).__name__}: {e} on a millisecond-based tempo list", dict(points=pts, queries=qs), dict(ms_based=True))
        for t, u in zip(qs, back):
            i = max(k for k, (tt, _) in enumerate(pts) if tt <= t)
            slow = max(60000.0 / pts[j][1] for j in (max(i - 1, 0), i, min(i + 1, len(pts) - 1)))
            if abs(t - float(u)) > slow / 192 + 1e-6 + 1e-9 * abs(t):
                return ctx.violate("C10", "c10.roundtrip", "ms_based_within_step", f"offsets(snaps({t})) = {float(u)}: further than 1/192 beat ({slow / 192:.3f} ms) on a millisecond-based tempo list",
                                   dict(points=pts, query=t, back=float(u)), dict(ms_based=True))
        ctx.held("c10.roundtrip", "ms_based_within_step", len(qs))
        return
    initial = case["initial"]
    changes = [(c[0], pf(c[1]), F(c[2]), F(c[3])) for c in case["changes"]]
    truth = rt.RefTiming(F(initial), changes)
    bcs = [BpmChangeSnap(float(v), int(t), Snap(m, b, int(t))) for m, b, v, t in changes]
    try:
        tm = TimingMap.from_bpm_changes_snap(initial, bcs, reseat=False)
    except Exception:
        return
    tm._rv_truth = truth
    ctx.state("c10.timeline_shape", (case["cls"], len(changes)))

    # position -> ms
    snaps = []
    for m, b in case["pos_queries"]:
        b = pf(b)
        try:
            i = truth.seg_of_pos(m, b)
        except ValueError:
            continue
        met = truth.ch[i][3]
        if b >= met:  # keep beat inside the measure of the active metronome
            b = b % met
        snaps.append(Snap(m, b, met))
    if snaps:
        try:
            tm.offsets(snaps)
        except Exception:
            pass

    # the same timeline through a tempo list (ms anchored), no truth attached:
    # exercises the passive reconstruction path every other workload relies on
    try:
        rows_ = [Bpm(float(ms), float(c[2]), float(c[3])) for ms, c in zip(truth.ms, truth.ch)]
        import random as _r
        _r.Random(case.get("rows_seed", 0)).shuffle(rows_)  # a tempo list is a set of rows: any order
        bl = BpmList(rows_)
        tm2 = bl.to_timing_map()
    except Exception:
        tm2 = None

    # ms queries
    qs = []
    for q in case["ms_queries"]:
        if q[0] == "grid":
            m, b = q[1], pf(q[2])
            try:
                i = truth.seg_of_pos(m, b % truth.ch[truth.seg_of_pos(m, 0)][3])
            except ValueError:
                continue
            met = truth.ch[truth.seg_of_pos(m, 0)][3]
            qs.append(float(truth.ms_of_pos(m, b % met)))
        elif q[0] == "change":
            qs.append(float(truth.ms[q[1]]))
        elif q[0] == "ulp":
            t = float(truth.ms_of_pos(q[1], 0))
            qs.append(math.nextafter(t, math.inf if q[2] > 0 else -math.inf))
        else:
            span = float(truth.ms[-1] - truth.ms[0]) + 4 * 60000 / float(truth.ch[-1][2])
            qs.append(float(truth.ms[0]) + q[1] * span * (1 + q[2]))
    qs = [t for t in qs if F(t) >= truth.ms[0]]
    if not qs:
        return
    sn = Snapper(case["divisions"]) if case.get("divisions") else Snapper()
    for which in (tm, tm2):
        if which is None:
            continue
        try:
            res = which.snaps(qs, sn)
        except Exception:
            res = None
        if res is not None and which is tm:
            # round trip ms -> position -> ms
            try:
                back = which.offsets(list(res))
            except Exception as e:
                ctx.violate("C10", "c10.roundtrip", "raises", f"offsets(snaps(t)) raised {type(e).__name__}: {e}",
                            dict(queries=qs), dict(n_changes=len(changes)))
                back = None
            if back is not None:
                from rv.monitors.timing import GRID_EPS, expected_positions

                div = tuple(case["divisions"]) if case.get("divisions") else rt.DEFAULT_DIVISIONS
                max_den = max(div)
                for t, u in zip(qs, back):
                    alts = expected_positions(truth, t, div, max_den)
                    kind = alts[0][0]
                    slow = max(float(truth.beat_len_at_ms(t)),
                               float(truth.beat_len_at_ms(F(u))) if F(u) >= truth.ms[0] else 0.0,
                               float(truth.beat_len_at_ms(max(truth.ms[0], F(t) - 1))))
                    # a time counts as "on the grid" within GRID_EPS beats of a grid point: it may come back as that grid point
                    ok = any(abs(t - u) <= float(tol + GRID_EPS) * slow + 1e-6 + 1e-9 * abs(t) for _, _, tol in alts)
                    clause = "on_grid_identity" if kind == "on" else "off_grid_within_step"
                    if not ok:
                        ctx.violate("C10", "c10.roundtrip", clause,
                                    f"offsets(snaps({t})) = {u} ({kind} grid)",
                                    dict(query=t, back=float(u), queries=qs), dict(n_changes=len(changes)))
                    else:
                        ctx.held("c10.roundtrip", clause)
        if len({c[3] for c in changes}) == 1:
            try:
                which.beats(qs, sn)
            except Exception:
                pass
    if snaps:
        # one argument at a time: the same positions, bpms and metronomes from another initial offset
        initial2 = float(initial) + (1234.5 if case.get("rows_seed", 0) % 3 else -777.25)
        try:
            tw0 = TimingMap.from_bpm_changes_snap(initial2, [BpmChangeSnap(float(v), int(t), Snap(m, b, int(t))) for m, b, v, t in changes], reseat=False)
        except Exception:
            tw0 = None
        if tw0 is not None:
            tw0._rv_truth = rt.RefTiming(F(initial2), changes)
            ctx.state("c10.offset_twin", initial2 > float(initial))
            try:
                tw0.offsets(snaps)
            except Exception:
                pass
    mets = {c[3] for c in changes}
    if len(mets) == 1:
        # one argument at a time: the same tempo points (same ms, same bpm) under another metronome, same snapper,
        # same process - anything remembered about the first list that is not keyed on the metronome shows here
        from reamber.algorithms.timing.utils.BpmChangeOffset import BpmChangeOffset

        met = next(iter(mets))
        met2 = F(3 if met != 3 else 5) if case.get("rows_seed", 0) % 2 else F(2 if met != 2 else 7)
        ch2 = []
        for m, b, v, _t in changes:
            m2, b2 = divmod(m * met + b, met2)
            ch2.append((int(m2), b2, v, met2))
        try:
            truth3 = rt.RefTiming(F(initial), ch2)
        except Exception:
            truth3 = None
        if truth3 is not None and [float(x) for x in truth3.ms] == [float(x) for x in truth.ms]:
            twins = []
            try:
                twins.append(TimingMap.from_bpm_changes_snap(initial, [BpmChangeSnap(float(v), int(t), Snap(m, b, int(t))) for m, b, v, t in ch2], reseat=False))
            except Exception:
                pass
            try:
                twins.append(TimingMap.from_bpm_changes_offset([BpmChangeOffset(bpm=float(c[2]), metronome=float(met2), offset=float(ms)) for ms, c in zip(truth.ms, truth.ch)]))
            except Exception:
                pass
            try:
                twins.append(BpmList([Bpm(float(ms), float(c[2]), float(met2)) for ms, c in zip(truth.ms, truth.ch)]).to_timing_map())
            except Exception:
                pass
            snaps3 = []
            for s_ in snaps:
                m3, b3 = divmod(F(s_.measure) * met + F(s_.beat), met2)
                snaps3.append(Snap(int(m3), b3, met2))
            for k3, tw in enumerate(twins):
                if k3 < 2:
                    tw._rv_truth = truth3
                ctx.state("c10.metronome_twin", (int(met), int(met2), k3))
                try:
                    if snaps3:
                        tw.offsets(snaps3)
                    tw.snaps(qs, sn)
                except Exception:
                    pass
    if case.get("edit") and len(changes) > 1:
        # the same TimingMap object after an edit that keeps the number of changes: every bpm doubled,
        # change times halved around the initial offset (same positions, new timeline)
        from reamber.algorithms.timing.utils.BpmChangeOffset import BpmChangeOffset

        t0 = truth.ms[0]
        truth2 = rt.RefTiming(t0, [(m, b, v * 2, t) for m, b, v, t in changes])
        try:
            tm.bpm_changes_offset = [BpmChangeOffset(bpm=float(c[2]), metronome=float(c[3]), offset=float(ms)) for ms, c in zip(truth2.ms, truth2.ch)]
        except Exception:
            return
        tm._rv_truth = truth2
        ctx.state("c10.edited_map", len(changes))
        try:
            if snaps:
                tm.offsets(snaps)
            qs2 = [float(t0 + (F(t) - t0) / 2) for t in qs]
            tm.snaps(qs2, sn)
        except Exception:
            pass
