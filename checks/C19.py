"""C19 — dominant bpm, scroll speed and SV normalisation follow their definitions."""
from __future__ import annotations

PROP = "C19"
BUDGET = {
    "quick": dict(shards=16, cases=6400, deadline=70),
    "thorough": dict(shards=16, cases=60000, deadline=1200),
}
DECIDING = ["dominant_bpm", "scroll_speed", "sv_normalize"]
RULE = ("Charts of all five games with 1..8 tempo points (repeated bpm values, exact ties as a class, near-ties counted), SVs "
        "before / at / between tempo points and coincident with each other (osu, Quaver), sorted and unsorted lists, overrides in "
        "{none, 1, 200, random}; monitors on dominant_bpm, scroll_speed and sv_normalize compare with exact step-function "
        "integration (Fractions for durations).")
TOLERANCES = {"durations": "exact (Fraction); ties within 1e-6 ms all accepted", "speed": "1e-9 relative", "multiplier": "1e-12 relative"}
ASSUMPTIONS = ["'last object' read both ways (largest offset of any list; largest hold tail): a bpm maximal under either is accepted",
               "at exact SV/tempo-point coincidence and for two SVs at one time either candidate multiplier is accepted"]


def pinned(tier):
    return [dict(cls="repo_test_suite", select=['tests/algorithm_tests'])] if tier == "thorough" else []


def gen(rng, tier, k):
    from rv.gen import charts

    cls = rng.choice(["plain", "plain", "sv_heavy", "ties", "unsorted", "many_tempo"])
    game = rng.choice(["osu", "qua"]) if cls == "sv_heavy" else None
    spec = charts.gen_spec(rng, game, n=rng.choice([1, 2, 5, 12]), n_bpm=rng.choice([1, 2, 3, 5, 8]) if cls != "many_tempo" else 8)
    ch0 = spec["charts"][0]
    for ch in spec["charts"]:
        if cls == "ties" and len(ch["bpms"]) >= 2:
            # equal total durations for two bpm values: move the last point so both run equally long
            b = ch["bpms"]
            times = [h[0] for h in ch["hits"]] + [h[0] for h in ch["holds"]]
            end = max(times + [b[-1][0]])
            b[:] = [[b[0][0], 120.0, 4], [b[0][0] + 1000.0, 150.0, 4]]
            for n in ch["hits"] + ch["holds"]:
                n[0] = min(n[0], b[0][0] + 2000.0) if n[0] >= b[0][0] else n[0]
            ch["hits"].append([b[0][0] + 2000.0, 0])
            if "hit_x" in ch:
                ch["hit_x"].append(list(ch["hit_x"][0]) if ch["hit_x"] else _default_x(spec["game"]))
            if "bpm_x" in ch:
                ch["bpm_x"] = [[0, 0, 50, False] for _ in b]
        if cls == "sv_heavy" and "svs" in ch:
            ts = [p[0] for p in ch["bpms"]]
            ch["svs"] = []
            for _ in range(rng.randint(2, 10)):
                r = rng.random()
                t = rng.choice(ts) if r < 0.3 else (rng.choice(ts) + rng.choice([1.0, 100.0, 0.5]) if r < 0.6 else rng.uniform(min(ts) - 200, max(ts) + 3000))
                ch["svs"].append([float(t), rng.choice([0.5, 1.0, 1.5, 2.0, 0.25, 3.0])])
            if rng.random() < 0.4 and ch["svs"]:
                ch["svs"].append([ch["svs"][0][0], 0.8])  # two SVs at one time
            if "sv_x" in ch:
                ch["sv_x"] = [[0, 0, 50, False] for _ in ch["svs"]]
    if rng.random() < 0.15:
        # the whole chart moved in time so that one of its landmarks is exactly 0 ms (a time of 0 is a time like any other)
        which = rng.choice(["last_object", "last_object", "first_tempo", "last_tempo"])
        for ch in spec["charts"]:
            times = [h[0] for h in ch["hits"]] + [h[0] + 0.0 for h in ch["holds"]]
            tails = [h[0] + h[2] for h in ch["holds"]]
            if not times or not ch["bpms"]:
                continue
            pivot = {"last_object": max(times + tails) if rng.random() < 0.5 else max(times), "first_tempo": min(b[0] for b in ch["bpms"]),
                     "last_tempo": max(b[0] for b in ch["bpms"])}[which]
            for key in ("hits", "holds", "bpms", "svs", "samples"):
                for row in ch.get(key, []):
                    row[0] = row[0] - pivot
    hist = []
    if cls == "unsorted":
        hist = [[rng.choice(["shuffle", "reverse", "append_split"]), rng.randrange(10**6)]]
        if hist[0][0] == "reverse":
            hist = [["reverse"]]
        if rng.random() < 0.4:
            hist.append(["append_split", rng.randrange(10**6)])  # rows relabelled 0..n-1 in their rotated order
    return dict(cls=cls, spec=spec, history=hist, override=rng.choice([None, None, 1.0, 200.0, round(rng.uniform(30, 400), 3)]))


def _default_x(game):
    return {"osu": [0, 0, 0, 0, 0, ""], "qua": [[]], "bms": [b""], "o2j": [0, 8]}.get(game, [])


def setup(ctx):
    from rv.monitors import algos

    algos.install(ctx, c19=True)


def run(ctx, case):
    if case.get("cls") == "repo_test_suite":
        from rv.suite import run_repo_tests
        return run_repo_tests(ctx, case.get("select"))
    from reamber.algorithms.analysis import scroll_speed
    from reamber.algorithms.generate import sv_normalize
    from reamber.algorithms.utils import dominant_bpm
    from rv.gen import charts

    with ctx.quiet():
        try:
            obj = charts.apply_history(charts.build(case["spec"]), case["history"])
        except Exception as e:
            ctx.counters["c19|build_failed"] += 1
            return
    maps = list(obj.maps) if hasattr(obj, "maps") else [obj]
    for m in maps[:2]:
        for rnd_ in (0, 1):
            if rnd_ == 1:
                if len(m.bpms) < 2 or ctx.cur_k is None or ctx.cur_k % 3 == 2:
                    break
                if ctx.cur_k % 3 == 0:
                    # in-place edit of the tempo list (same frame object): values rotated, so another bpm runs longest
                    vals = m.bpms.bpm.tolist()
                    m.bpms.bpm = vals[1:] + vals[:1]
                    ctx.state("c19.edited_in_place", "tempo values")
                else:
                    # in-place edit of the notes (same frame object): the last object moves a minute later, so the last tempo runs longer
                    lst = m.hits if len(m.hits) else m.holds
                    if not len(lst):
                        break
                    offs = lst.offset.to_numpy().copy()
                    offs[offs.argmax()] += 60000.0
                    lst.offset = offs
                    ctx.state("c19.edited_in_place", "last object")
            run_queries(m, case, dominant_bpm, scroll_speed, sv_normalize)
    return


def run_queries(m, case, dominant_bpm, scroll_speed, sv_normalize):
    if True:
        for f, a in ((dominant_bpm, (m,)), (scroll_speed, (m,)), (scroll_speed, (m, case["override"])),
                     (sv_normalize, (m,)), (sv_normalize, (m, case["override"]))):
            if f is sv_normalize and "svs" not in m.objs:
                continue
            try:
                if len(a) == 2 and case["override"] is not None and int(case["override"] * 1000) % 2:
                    f(a[0], override_bpm=a[1])  # the keyword form of the same call
                else:
                    f(*a)
            except Exception:
                pass
