"""C12 — stacking writes through: editing the stack equals editing each list."""
from __future__ import annotations

import operator

PROP = "C12"
BUDGET = {
    "quick": dict(shards=16, cases=4800, deadline=70),
    "thorough": dict(shards=16, cases=40000, deadline=1200),
}
DECIDING = ["stack.setitem", "stack.loc_setitem", "stack.mapset_setitem", "c12.model"]
RULE = ("Charts of all five games (SM with its nine lists; empty lists; all-empty charts) whose lists carry default labels, label gaps "
        "(filtered), stack-position labels (previously stacked) or permuted labels (sorted / shuffled); histories of 1..12 stack "
        "operations: whole-column + - * / on offset/column/length/bpm/metronome and game columns, column := scalar, column := "
        "expression of another column, .loc with predicates on one or two columns and 1-2 target columns, re-stack between operations "
        "or reuse of one stack, stacks restricted by include_types, and mapset stacks. Passive monitors on the three __setitem__ "
        "hooks compare every list with its pre-state + the assignment applied to its own positional slice; the active model (c12.model) "
        "recomputes each operation per list from the lists' own pre-state, independently of the stack.")
TOLERANCES = {"cells": "numeric equality (1 == 1.0), NaN-aware; dtype drift counted, not judged"}
ASSUMPTIONS = ["row labels are not part of the statement (they become stack positions)", "all edits go through the stack while it is in use"]

OPS = {"+": operator.add, "-": operator.sub, "*": operator.mul, "/": operator.truediv, "nan": lambda cur, v: cur * float("nan")}
CMP = {"<": operator.lt, "<=": operator.le, ">": operator.gt, ">=": operator.ge, "==": operator.eq, "!=": operator.ne}
NUMERIC = ["offset", "column", "length", "bpm", "metronome"]
GAME_COLS = {"osu": ["volume", "hitsound_set", "sample_set", "custom_set"], "qua": [], "bms": [], "o2j": [], "sm": []}


def pinned(tier):
    return [dict(cls="repo_test_suite", select=['tests/unit_tests/base'])] if tier == "thorough" else []


def gen(rng, tier, k):
    from rv.gen import charts

    spec = charts.gen_spec(rng, n=rng.choice([0, 1, 3, 6, 12]))
    if rng.random() < 0.25:
        # late in a long chart: an edit by 1 ms is tiny relative to the values it changes
        base = rng.choice([100000.0, 600000.0, 3600000.0])
        for ch in spec["charts"]:
            for key in ("hits", "holds", "bpms", "svs", "samples"):
                for row in ch.get(key, []):
                    row[0] += base
            for rows_ in ch.get("extra", {}).values():
                for row in rows_:
                    row[0] += base
        if "offset" in spec.get("meta", {}):
            spec["meta"]["offset"] += base
    game = spec["game"]
    hist = charts.gen_history(rng, allowed=["filter_mask", "sorted", "shuffle", "stack_noop", "append_split", "reverse"]) if rng.random() < 0.6 else []
    cols = NUMERIC + GAME_COLS[game]
    ops = []
    for _ in range(rng.randint(1, 12)):
        r = rng.random()
        restack = rng.random() < 0.4
        if r < 0.4:
            c = rng.choice(cols)
            ops.append(dict(kind="col_arith", col=c, opr=rng.choice("+-*/"), v=rng.choice([1, 2, 3, 0.5, 1.5, 100, -7, 1.000005, 1e-3, 0.25]), restack=restack,
                            series_order=rng.choice([None, None, "sorted", "reversed"])))
        elif r < 0.5:
            ops.append(dict(kind="col_scalar", col=rng.choice(cols), v=rng.choice([0, 1, 5.5, 120]), restack=restack))
        elif r < 0.6:
            ops.append(dict(kind="col_expr", col=rng.choice(["offset", "length"]), other=rng.choice(["offset", "column"]), restack=restack))
        elif r < 0.67:
            # missing values are values: assigning NaN to the selection, or keeping a column only where a condition holds
            c = rng.choice(["offset", "length", "bpm", "column"])
            ops.append(dict(kind="loc", preds=[[c, rng.choice(["<", ">="]), rng.choice([0, 100.0, 500.0, 120.0, 2])]], targets=[rng.choice(["offset", "length", "bpm"])],
                            opr="nan", v=0, restack=restack, single_str=rng.random() < 0.5) if rng.random() < 0.5 else
                       dict(kind="col_where", col=c, th=rng.choice([0, 100.0, 500.0, 120.0, 2]), restack=restack))
        else:
            np_ = rng.choice([1, 1, 2])
            preds = [[rng.choice(NUMERIC), rng.choice(["<", "<=", ">", ">=", "=="]), rng.choice([0, 1, 2, 3, 100.0, 250.0, 500.0, 1000.0, 120.0, 4])] for _ in range(np_)]
            tg = rng.sample(cols, rng.choice([1, 1, 2]))
            ops.append(dict(kind="loc", preds=preds, targets=tg, opr=rng.choice("+-*/"), v=rng.choice([1, 2, 0.5, 10, -3]), restack=restack,
                            single_str=len(tg) == 1 and rng.random() < 0.5, mask_order=rng.choice([None, None, "sorted", "reversed"])))
    include = rng.choice([None, None, None, ["HitList"], ["HoldList", "BpmList"], ["NoteList"]])
    return dict(cls="mapset" if game in ("sm", "o2j") and rng.random() < 0.5 else "map", spec=spec, history=hist, ops=ops, include=include)


def setup(ctx):
    from rv import reach
    from rv.monitors import stack
    from reamber.base.Map import Map

    stack.install(ctx)
    reach.probe(Map.Stacker._update, {"stack._update": "obj.df = self._stacked"})


def model_apply(lists, in_stack, op):
    """lists: [rowdicts]; in_stack: [bool]; returns expected rowdicts after op."""
    import math

    def num(x):
        return float("nan") if x == "NaN" else x

    out = []
    for rows, inc in zip(lists, in_stack):
        rows = [dict(r) for r in rows]
        if inc and rows:
            have = set(rows[0])
            if op["kind"] == "col_arith" and op["col"] in have:
                for r in rows:
                    r[op["col"]] = OPS[op["opr"]](num(r[op["col"]]), op["v"])
            elif op["kind"] == "col_scalar" and op["col"] in have:
                for r in rows:
                    r[op["col"]] = op["v"]
            elif op["kind"] == "col_expr" and op["col"] in have:
                for r in rows:
                    o = num(r[op["other"]]) if op["other"] in have else 0.0
                    o = 0.0 if isinstance(o, float) and math.isnan(o) else o  # the right-hand side fills missing values with 0
                    r[op["col"]] = num(r[op["col"]]) + o
            elif op["kind"] == "col_where" and op["col"] in have:
                for r in rows:
                    x = num(r[op["col"]])
                    if not (isinstance(x, (int, float)) and not (isinstance(x, float) and math.isnan(x)) and x >= op["th"]):
                        r[op["col"]] = float("nan")
            elif op["kind"] == "loc":
                for r in rows:
                    ok = all(c in have and not (isinstance(num(r[c]), float) and math.isnan(num(r[c]))) and CMP[cm](num(r[c]), th) for c, cm, th in op["preds"])
                    if ok:
                        for t in op["targets"]:
                            if t in have:
                                r[t] = OPS[op["opr"]](num(r[t]), op["v"])
        for r in rows:
            for k2, v2 in r.items():
                if isinstance(v2, float) and math.isnan(v2):
                    r[k2] = "NaN"
        out.append(rows)
    return out


def do_op(stack, op):
    if op["kind"] == "col_arith":
        setattr_ = lambda v: stack.__setitem__(op["col"], v)
        cur = stack[op["col"]]
        val = OPS[op["opr"]](cur, op["v"])
        if op.get("series_order") == "sorted":
            val = val.sort_values()   # a Series is assigned by its labels (the stack's positions), whatever order it is in
        elif op.get("series_order") == "reversed":
            val = val.iloc[::-1]
        setattr_(val)
    elif op["kind"] == "col_scalar":
        stack[op["col"]] = op["v"]
    elif op["kind"] == "col_expr":
        stack[op["col"]] = stack[op["col"]] + stack[op["other"]].fillna(0)
    elif op["kind"] == "col_where":
        stack[op["col"]] = stack[op["col"]].where(stack[op["col"]] >= op["th"])
    else:
        mask = None
        for c, cm, th in op["preds"]:
            m = CMP[cm](stack[c], th)
            mask = m if mask is None else (mask & m)
        cols = op["targets"][0] if op["single_str"] else list(op["targets"])
        if op.get("mask_order") == "sorted":
            mask = mask.loc[stack["offset"].sort_values().index]   # a boolean Series selects by its labels, whatever order it is in
        elif op.get("mask_order") == "reversed":
            mask = mask.iloc[::-1]
        cur = stack.loc[mask, cols]
        stack.loc[mask, cols] = OPS[op["opr"]](cur, op["v"])


def run(ctx, case):
    if case.get("cls") == "repo_test_suite":
        from rv.suite import run_repo_tests
        return run_repo_tests(ctx, case.get("select"))
    from reamber.base.lists.BpmList import BpmList
    from reamber.base.lists.notes import HitList, HoldList, NoteList
    from rv.gen import charts
    from rv.monitors.lists import rowdicts
    from rv.monitors.stack import num_eq

    T = dict(HitList=HitList, HoldList=HoldList, BpmList=BpmList, NoteList=NoteList)
    with ctx.quiet():
        try:
            obj = charts.apply_history(charts.build(case["spec"]), case["history"])
        except Exception:
            ctx.counters["c12|build_failed"] += 1
            return
    maps = list(obj.maps) if hasattr(obj, "maps") else [obj]
    if case["cls"] == "mapset":
        # mapset stack: whole-column arithmetic per chart
        for op in [o for o in case["ops"] if o["kind"] == "col_arith"][:4]:
            if not any(op["col"] in tl.df.columns and len(tl) for m in maps for tl in m.objs.values()):
                continue
            pre = [[rowdicts(tl) for tl in m.objs.values()] for m in maps]
            try:
                st = obj.stack()
                st[op["col"]] = OPS[op["opr"]](st[op["col"]], op["v"])
            except Exception as e:
                if all(sum(len(tl) for tl in m.objs.values()) for m in maps):
                    ctx.violate("C12", "c12.model", "raises", f"mapset stack op raised {type(e).__name__}: {e}", dict(op=op, tb=core_tb(e)), dict(kind="mapset"))
                continue
            with ctx.quiet():
                for mi, m in enumerate(maps):
                    want = model_apply(pre[mi], [True] * len(pre[mi]), op)
                    judge_model(ctx, m, want, pre[mi], op, "mapset", num_eq, rowdicts)
        return
    for m in maps[:2]:
        inc = None if case["include"] is None else tuple(T[n] for n in case["include"])
        lists = list(m.objs.values())
        in_stack = [True if inc is None else isinstance(tl, inc) for tl in lists]
        st = None
        for op in case["ops"]:
            stacked_lists = [tl for tl, i in zip(lists, in_stack) if i]
            if not stacked_lists:
                break
            allcols = {str(c) for tl in stacked_lists for c in tl.df.columns}
            need = [op.get("col")] + [p[0] for p in op.get("preds", [])] + op.get("targets", []) + [op.get("other")]
            if any(c is not None and c not in allcols for c in need):
                ctx.counters["c12|op_skipped_no_such_column"] += 1
                continue
            pre = [rowdicts(tl) for tl in lists]
            try:
                if st is None or op["restack"]:
                    st = m.stack(inc)
                do_op(st, op)
            except Exception as e:
                ctx.violate("C12", "c12.model", "raises", f"stack op {op['kind']} raised {type(e).__name__}: {e}", dict(op=op, tb=core_tb(e), lists=[p[:6] for p in pre]),
                            dict(kind=op["kind"], all_empty=not any(pre)))
                st = None
                continue
            lists = list(m.objs.values())
            # A reused stack keeps what was assigned to a column also for rows of lists that lack
            # it; later *reads* through that stack (masks, right-hand sides) see those values.
            # Reads are outside the statement, so the model only reuses a stack while its view
            # still mirrors the lists.
            written = [op.get("col")] + op.get("targets", [])
            if any(c is not None and any(c not in tl.df.columns for tl, i in zip(lists, in_stack) if i) for c in written):
                st = None
            with ctx.quiet():
                want = model_apply(pre, in_stack, op)
                judge_model(ctx, m, want, pre, op, op["kind"], num_eq, rowdicts)


def core_tb(e):
    from rv import core

    return core.short_tb(e)


def judge_model(ctx, m, want, pre, op, kind, num_eq, rowdicts):
    feat = dict(kind=kind)
    for (name, tl), w, p in zip(m.objs.items(), want, pre):
        got = rowdicts(tl)
        if len(got) != len(w):
            return ctx.violate("C12", "c12.model", "length", f"{name}: {len(w)} rows expected, {len(got)} after {op}", dict(op=op, list=name), feat)
        for k, (g, e) in enumerate(zip(got, w)):
            if set(g) != set(e):
                return ctx.violate("C12", "c12.model", "columns", f"{name}: fields {sorted(e)} -> {sorted(g)}", dict(op=op, list=name), feat)
            for c in e:
                if not num_eq(g[c], e[c]):
                    changed = not num_eq(p[k][c], e[c])
                    return ctx.violate("C12", "c12.model", "selected_cell" if changed else "unselected_cell",
                                       f"{name} row {k} field {c}: expected {e[c]!r} got {g[c]!r} (was {p[k][c]!r}) after {op}",
                                       dict(op=op, list=name, pre=p[:10], got=got[:10]), feat)
    ctx.held("c12.model", kind)
    ctx.state("c12.op", (type(m).__name__, kind, op.get("col") or tuple(op.get("targets", []))[:1]))
