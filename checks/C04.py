"""C04 — BMS reading places every object at the time its measure position and tempo imply."""
from __future__ import annotations

import glob
import os

PROP = "C04"
BUDGET = {
    "quick": dict(shards=16, cases=960, deadline=70),
    "thorough": dict(shards=16, cases=24000, deadline=1200),
}
DECIDING = ["bms.read", "fileio.read_file", "c04.kf_witness"]
RULE = ("Generated BMS texts for each of the five shipped layouts (all lanes): subdivisions 1..192 incl. primes, integer "
        "(channel 03) and extended (channel 08) tempo changes anywhere in a measure, LNOBJ long notes within and across "
        "measures, defined and undefined #WAV ids, header order shuffled, lines in file/sorted/reversed/random order, "
        "1..2 lines per measure and channel; plus the bundled rsc/maps/bms corpus (pinned). The reference rv/ref/bms.py "
        "collects all lines, sorts each lane by position and pairs LNOBJ with the time-preceding object.")
TOLERANCES = {"ms": "1e-6 abs + 1e-9 rel"}
ASSUMPTIONS = ["rv/ref/bms.py + rv/ref/timing.py are the trusted reading of the BMS format",
               "base-36 ids upper case; channel 02 (time signature) lines are outside the property's domain"]
CLASSES = ["plain", "plain", "line_order", "line_order", "repeated_lines", "single_tempo", "no_lnobj", "tempo_fine_subdivision"]


def kf_witnesses():
    from rv import core

    for f in core.load_known_findings().get("findings", []):
        if f["id"] == "KF-C04-tempo-change-finer-than-snapper":
            return f.get("pinned_outputs", [])
    return []


def read_output(lines, layout):
    """What BMSMap.read gives for the lines: sorted hits / holds / tempo points, or the exception name."""
    from reamber.bms.BMSChannel import BMSChannel
    from reamber.bms.BMSMap import BMSMap
    from rv.snapshot import rows

    try:
        m = BMSMap.read(list(lines), getattr(BMSChannel, layout))
    except Exception as e:
        return "raises " + type(e).__name__
    return dict(hits=sorted([round(float(o), 6), int(c)] for o, c in rows(m.hits, ["offset", "column"])),
                holds=sorted([round(float(o), 6), int(c), round(float(ln), 6)] for o, c, ln in rows(m.holds, ["offset", "column", "length"])),
                bpms=sorted([round(float(o), 6), round(float(b), 6)] for o, b in rows(m.bpms, ["offset", "bpm"])))


def pinned(tier):
    repo = os.environ.get("VERIF_REPO", "/repo")
    return [dict(cls="corpus", path=p) for p in sorted(glob.glob(os.path.join(repo, "rsc/maps/bms/*.bm*")))] + \
        [dict(cls="kf_witness", lines=w["lines"], layout=w["layout"], expected=w["output"], wid=i) for i, w in enumerate(kf_witnesses())]


def gen(rng, tier, k):
    from rv.gen import bms as gbms

    cls = rng.choice(CLASSES)
    lines, layout, facts = gbms.gen_lines(rng, cls, max_measures=5 if tier == "quick" else 10)
    return dict(cls=cls, layout=layout, lines=lines, order=facts["order"])


def setup(ctx):
    from rv import reach
    from rv.monitors import bms
    from reamber.bms.BMSMap import BMSMap

    reach.probe(BMSMap._read_notes, {
        "bms.read.lnobj_branch": "if pair == self.ln_end_channel:",
        "bms.read.measure0_override": "bcs_s.pop(0)",
        "bms.read.exbpm": "else float(self.exbpms[pair])",
    })
    bms.install(ctx, read=True, write=False)


def run(ctx, case):
    import codecs

    from reamber.bms.BMSChannel import BMSChannel
    from reamber.bms.BMSMap import BMSMap

    if case["cls"] == "kf_witness":
        with ctx.quiet():
            got = read_output(case["lines"], case["layout"])
        if got != case["expected"]:
            ctx.violate("C04", "c04.kf_witness", "behaviour_changed",
                        f"pinned input {case['wid']} of KF-C04-tempo-change-finer-than-snapper no longer gives the recorded output: recorded {str(case['expected'])[:300]}, now {str(got)[:300]}",
                        dict(lines=case["lines"], recorded=case["expected"], now=got), dict(witness=True))
        else:
            ctx.held("c04.kf_witness", "recorded_output")
    if case["cls"] == "corpus":
        with codecs.open(case["path"], mode="r", encoding="shift_jis") as f:
            lines = [ln.strip() for ln in f.readlines()]
        cfg = BMSChannel.BME
    else:
        lines = case["lines"]
        cfg = getattr(BMSChannel, case["layout"])
    try:
        BMSMap.read(lines, cfg)
    except Exception:
        pass
    if ctx.cur_k is not None and ctx.cur_k % 4 == 0:
        # the caller's own layout dict, read with, then two lanes swapped in that same dict and read again
        try:
            own = dict(cfg)
            BMSMap.read(lines, own)
            lane_keys = [k for k, v in own.items() if isinstance(v, int)]
            if len(lane_keys) >= 2:
                a, b = lane_keys[0], lane_keys[-1]
                own[a], own[b] = own[b], own[a]
                BMSMap.read(lines, own)
                ctx.state("c04.layout_edited_in_place", True)
        except Exception:
            pass
    if case["cls"] != "corpus" and ctx.cur_k is not None and ctx.cur_k % 5 == 1:
        from rv.monitors import fileio
        try:
            content = "\n".join(lines).encode("shift_jis")
        except UnicodeEncodeError:
            return
        fileio.check_read_file(ctx, "C04", BMSMap, content, args=(cfg,), read_arg=[ln.strip() for ln in lines], crlf=bool(ctx.cur_k is not None and ctx.cur_k % 2))
