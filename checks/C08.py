"""C08 — converting between games preserves chart content exactly, from any source state."""
from __future__ import annotations

PROP = "C08"
BUDGET = {
    "quick": dict(shards=16, cases=1920, deadline=70),
    "thorough": dict(shards=16, cases=40000, deadline=1200),
}
DECIDING = ["convert", "c08.stability"]
RULE = ("All 16 converters and O2JToSM.convert_merge over source charts of the five games from rv/gen/charts.py (built from items / "
        "from_dict / frames; empty hold and SV lists; 1..3 charts per mapset) in every history class of the quantifier: freshly built, "
        "read back from a written file, filtered (label gaps), sorted / reversed / shuffled, appended to, modified through stacking (stack "
        "labels), rate-changed, deep-copied, and combinations of 2-3 of these; explicit column shift arguments. The contract on each "
        "converter compares hits / holds / tempo points (/ SVs) as multisets of exact values with the pre-call source, walks every target "
        "list for declared-fields-only / no missing value, counts target charts, maps title / artist / creator / difficulty name and "
        "re-compares the source snapshot.")
TOLERANCES = {"values": "exact float equality (no arithmetic is supposed to happen)"}
ASSUMPTIONS = ["transliterated (unidecode) or Shift-JIS encoded forms of a source string count as that string",
               "text that Shift-JIS cannot encode is outside the domain of the ->BMS converters"]

SUPPORTED_KEYS = {"qua": [4, 7], "sm": [3, 4, 6, 7, 8], "osu": None, "bms": None}


def pinned(tier):
    return [dict(cls="repo_test_suite", select=['tests/algorithm_tests/convert'])] if tier == "thorough" else []


def gen(rng, tier, k):
    from rv.gen import charts
    from rv.monitors.convert import CONVERTERS, split_name

    name = CONVERTERS[k % len(CONVERTERS)] if rng.random() < 0.7 else rng.choice(CONVERTERS)
    sg, tg = split_name(name)
    kw = {}
    if sg in ("osu",) and SUPPORTED_KEYS.get(tg):
        kw["keys"] = rng.choice(SUPPORTED_KEYS[tg])
    if sg == "sm" and tg == "qua":
        kw["keys"] = rng.choice([4, 7, 8, 3, 6])   # 3 / 6 keys have no Quaver mode: refused by default, converted with an empty Mode when lenient
    if sg == "bms" and tg in ("qua", "sm"):
        kw["keys"] = rng.choice([4, 7, 8] if tg == "qua" else [3, 4, 6, 7, 8])
    if rng.random() < 0.9:
        kw["n"] = rng.choice([1, 2, 5, 12, 25])
    spec = charts.gen_spec(rng, sg, **kw)
    if sg == "sm" and len(spec["charts"]) > 1 and rng.random() < 0.35:
        for ch in spec["charts"][1:]:
            ch["bpms"] = [[b[0] + 250.0 * i, rng.choice(charts.BPMS), 4] for i, b in enumerate(spec["charts"][0]["bpms"][: rng.randint(1, 3)])]
    if tg == "bms" and rng.random() < 0.85:
        safe = ["Caravan", "a b c", "x_y-z", "2nd", "夜に駆ける", "Title"]
        for holder in [spec] + spec["charts"]:
            for f in ("title", "artist", "version", "difficulty_name", "description"):
                if f in holder.get("meta", {}):
                    holder["meta"][f] = rng.choice(safe)
    hist = charts.gen_history(rng, n=rng.choice([0, 1, 1, 2, 3]))
    via_file = sg in ("osu", "qua") and rng.random() < 0.15
    merge = name == "O2JToSM" and rng.random() < 0.4
    shift = rng.choice([None, None, 0, 1, 2, -1]) if tg == "bms" and sg != "sm" else None
    lenient = rng.random() < 0.5
    if rng.random() < 0.25:
        # holds that end where they start are holds all the same: a converter may not turn them into hits or drop them
        for ch in spec["charts"]:
            for h in ch["holds"]:
                if rng.random() < 0.3:
                    h[2] = 0.0
    if rng.random() < 0.25:
        # scroll velocities ahead of the first tempo point (lead-in) are scroll velocities all the same
        for ch in spec["charts"]:
            if ch.get("svs") and ch["bpms"]:
                first = min(b[0] for b in ch["bpms"])
                for sv in ch["svs"]:
                    if rng.random() < 0.5:
                        sv[0] = first - rng.choice([0.5, 100.0, 1000.0, 2500.0])
    if rng.random() < 0.15:
        # two tempo points at one time (the later row is the one in force) - both are tempo points of the source
        for ch in spec["charts"]:
            if len(ch["bpms"]) >= 2:
                i = rng.randrange(1, len(ch["bpms"]))
                ch["bpms"][i][0] = ch["bpms"][i - 1][0]
                if rng.random() < 0.5:
                    ch["bpms"].reverse()
                    for key in ("bpm_x",):
                        if key in ch:
                            ch[key].reverse()
    if rng.random() < 0.2:
        # a tempo point repeating the value of the one before it (a bar-line reset) is a tempo point all the same
        for ch in spec["charts"]:
            for a, b in zip(ch["bpms"], ch["bpms"][1:]):
                if rng.random() < 0.6:
                    b[1] = a[1]
    return dict(cls=name + ("_merge" if merge else ""), converter=name, merge=merge, spec=spec, history=hist, via_file=via_file, shift=shift,
                lenient=lenient)


def setup(ctx):
    from rv import reach
    from rv.monitors import convert
    from reamber.algorithms.convert.ConvertBase import ConvertBase

    convert.install(ctx)
    reach.probe(ConvertBase.cast, {"convert.cast": "buffer.__setattr__("})


def run(ctx, case):
    if case.get("cls") == "repo_test_suite":
        from rv.suite import run_repo_tests
        return run_repo_tests(ctx, case.get("select"))
    import importlib
    import inspect

    from rv.gen import charts

    with ctx.quiet():
        try:
            obj = charts.apply_history(charts.build(case["spec"]), case["history"])
            if case["via_file"]:
                obj = type(obj).read(obj.write().split("\n") if isinstance(obj.write(), str) else obj.write())
        except Exception:
            ctx.counters["c08|build_failed"] += 1
            return
    mod = importlib.import_module("reamber.algorithms.convert." + case["converter"])
    cls = getattr(mod, case["converter"])
    fn = cls.convert_merge if case["merge"] else cls.convert
    kw = {}
    params = inspect.signature(inspect.unwrap(fn)).parameters
    if case["shift"] is not None and "move_right_by" in params:
        kw["move_right_by"] = case["shift"]
    if "raise_bad_mode" in params and case["lenient"]:
        kw["raise_bad_mode"] = False
    from rv.monitors.convert import charts_of, content
    try:
        res1 = fn(obj, **kw)
    except Exception:
        return
    # a second source of the same shape (same row counts), converted afterwards: the first result must not move
    with ctx.quiet():
        try:
            before = [content(m) for _, m in charts_of(res1)]
            obj2 = charts.apply_history(charts.build(case["spec"]), case["history"] + [["stack_shift", 777.0]])
        except Exception:
            return
    try:
        fn(obj2, **kw)
    except Exception:
        return
    with ctx.quiet():
        after = [content(m) for _, m in charts_of(res1)]
    if before != after:
        ctx.violate("C08", "c08.stability", "earlier_result_changed",
                    f"{case['converter']}: the result of an earlier conversion changed when another chart of the same shape was converted afterwards",
                    dict(before=str(before)[:600], after=str(after)[:600]), dict(converter_family=case["converter"].split("To")[1]))
    else:
        ctx.held("c08.stability", "earlier_result_unchanged")
