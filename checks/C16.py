"""C16 — timed lists behave like ordered collections of their rows."""
from __future__ import annotations

PROP = "C16"
BUDGET = {
    "quick": dict(shards=16, cases=8000, deadline=70),
    "thorough": dict(shards=16, cases=48000, deadline=1200),
}
DECIDING = ["list.len", "list.getitem", "list.extrema", "list.sorted", "list.append", "list.filter", "list.iter", "list.construct"]
RULE = ("For every TimedList subclass of the five games and the base package (enumerated from the source tree): contents empty / one "
        "row / duplicates / equal offsets at filter boundaries / negative and fractional offsets, built from items, from_dict (list of "
        "dicts, dict of lists, with omitted fields) and empty(n); then histories of 1..15 operations, each continuing from a list an "
        "earlier operation produced (len, [i] incl. negative and out of range, slices with steps, boolean masks, iteration, first/last "
        "offset, sorted both ways, append item/list with and without sort, after/before/between with every flag combination and the "
        "head/tail variants for holds). Every call is compared with the same operation on a plain Python list of the rows.")
TOLERANCES = {"values": "exact (NaN-aware); 1 == 1.0"}
ASSUMPTIONS = ["stability of sorted() among equal offsets is not demanded", "first/last offset of an empty list is unspecified (None or an error)",
               "negative lengths are outside the documented precondition of the tail variants"]

_CLASSES = None


def list_classes():
    global _CLASSES
    if _CLASSES is None:
        import importlib
        import inspect
        import pkgutil

        import reamber
        from reamber.base.lists.TimedList import TimedList

        seen = {}
        for m in pkgutil.walk_packages(reamber.__path__, "reamber."):
            if "playField" in m.name or "parse_replay" in m.name:
                continue
            try:
                mod = importlib.import_module(m.name)
            except Exception:
                continue
            for n, o in vars(mod).items():
                if inspect.isclass(o) and issubclass(o, TimedList) and o.__module__ == m.name and not inspect.isabstract(o):
                    seen[o.__name__] = o
        _CLASSES = dict(sorted(seen.items()))
    return _CLASSES


CLASS_NAMES = ["BMSBpmList", "BMSHitList", "BMSHoldList", "BMSNoteList", "BpmList", "HitList", "HoldList", "NoteList", "O2JBpmList",
               "O2JHitList", "O2JHoldList", "O2JNoteList", "OsuBpmList", "OsuHitList", "OsuHoldList", "OsuNoteList", "OsuSampleList",
               "OsuSvList", "QuaBpmList", "QuaHitList", "QuaHoldList", "QuaNoteList", "QuaSvList", "QuaTimedList", "SMBpmList",
               "SMFakeList", "SMHitList", "SMHoldList", "SMKeySoundList", "SMLiftList", "SMMineList", "SMNoteList", "SMRollList",
               "SMStopList", "TimedList"]


def gen_value(rng, name, dtype, default):
    if name == "offset":
        return None  # filled by caller
    if name == "length":
        return rng.choice([0.0, 1.0, 50.0, 100.0, 250.5, 1000.0])
    if name == "column":
        return rng.randrange(8)
    if name == "bpm":
        return rng.choice([60.0, 120.0, 173.25, 200.0])
    if name == "metronome":
        return rng.choice([4.0, 3.0, 4.0])
    if name == "multiplier":
        return rng.choice([0.5, 1.0, 2.0])
    if isinstance(default, list):
        return rng.choice([[], ["a"], ["a", "b"]])
    if dtype in ("object", "str"):
        return rng.choice(["", "hit.wav", "a b.ogg"])
    if dtype == "b":
        return rng.choice(["b:", "b:hit.wav"])
    if dtype == "bool":
        return rng.random() < 0.5
    if dtype == "int":
        return rng.randrange(0, 16)
    if dtype == "float":
        return rng.choice([0.0, 1.5, 70.0])
    return default


def pinned(tier):
    return [dict(cls="repo_test_suite", select=['tests/unit_tests'])] if tier == "thorough" else []


def gen(rng, tier, k):
    cname = CLASS_NAMES[k % len(CLASS_NAMES)] if rng.random() < 0.8 else rng.choice(CLASS_NAMES)
    style = rng.choice(["empty", "one", "dups", "grid", "neg_frac", "grid", "many", "large"])
    # "large": sizes around the powers of two where an implementation would switch to a fast path
    n = {"empty": 0, "one": 1, "large": rng.choice([63, 64, 65, 128, 130, 300] + ([1000, 1025] if tier == "thorough" else []))}.get(
        style, rng.choice([2, 3, 5, 8, 14] if style != "many" else [20, 40]))
    offs = []
    t = rng.choice([0.0, 100.0, -1000.0]) if style != "neg_frac" else -rng.uniform(0, 500)
    for _ in range(n):
        t += {"dups": rng.choice([0.0, 0.0, 100.0]), "neg_frac": rng.choice([0.25, 33.333333333333336, 100.5, 0.0])}.get(style, rng.choice([50.0, 100.0, 100.0, 250.0]))
        offs.append(t)
    if rng.random() < 0.4:
        rng.shuffle(offs)
    nops = rng.randint(1, 15)
    ops = []
    pool_times = offs or [0.0]
    for _ in range(nops):
        op = rng.choice(["len", "getint", "getint", "slice", "mask", "iter", "first", "last", "first_last", "sorted", "append_item",
                         "append_list", "after", "before", "between", "after", "between", "edit"])
        src = rng.random()  # which pooled list to continue from (resolved at run time)
        x = rng.choice(pool_times) + rng.choice([0.0, 0.0, 0.0, -0.5, 0.5, 100.0, 50.0])
        y = rng.choice(pool_times) + rng.choice([0.0, 0.0, 0.5, 100.0, 250.0, 1000.0])
        if rng.random() < 0.1:
            import math
            x = math.nextafter(x, rng.choice([-math.inf, math.inf]))  # a bound one ulp away from a row's time
            y = math.nextafter(y, rng.choice([-math.inf, math.inf]))
        ops.append(dict(op=op, src=src, i=rng.randint(-n - 2, n + 2), sl=[rng.choice([None, 0, 1, -1, 2, n]), rng.choice([None, -1, 1, n, n + 3, 0]), rng.choice([None, None, 1, 2, -1])],
                        seed=rng.randrange(10**6), reverse=rng.random() < 0.5, sort=rng.random() < 0.5, x=x, y=max(x, y) if rng.random() < 0.7 else y,
                        ie=[rng.random() < 0.5, rng.random() < 0.5], ie_bool=rng.random() < 0.2, head=rng.random() < 0.5, tail=rng.random() < 0.5,
                        end=rng.random() < 0.5, dflt=rng.random() < 0.35, foreign=rng.random() < 0.3, tail_bound=rng.random() < 0.25))
    return dict(cls=cname, style=style, offsets=offs, vseed=rng.randrange(10**6), via=rng.choice(["items", "items", "from_dict_rows", "from_dict_cols", "from_dict_partial"]),
                empty_n=rng.choice([0, 1, 3, 7]), ops=ops, ints=rng.random() < 0.2)


def setup(ctx):
    from rv.monitors import lists

    lists.install(ctx)


def _b(v):
    return v[2:].encode() if isinstance(v, str) and v.startswith("b:") else v


def run(ctx, case):
    if case.get("cls") == "repo_test_suite":
        from rv.suite import run_repo_tests
        return run_repo_tests(ctx, case.get("select"))
    import random

    import numpy as np

    from rv.monitors import lists as L

    if case["cls"] not in list_classes():
        ctx.counters["c16|abstract_class_skipped"] += 1
        return
    cls = list_classes()[case["cls"]]
    ic = cls._item_class()
    props = ic._props  # name -> [dtype, default]
    rng = random.Random(case["vseed"])
    rows = []
    for o in case["offsets"]:
        r = {}
        for name, (dt, default) in props.items():
            v = gen_value(rng, name, dt, default)
            r[name] = o if name == "offset" else _b(v)
            if case.get("ints") and name in ("offset", "length") and isinstance(r[name], float) and r[name].is_integer():
                r[name] = int(r[name])  # whole numbers given as Python ints: the column gets an integer dtype
        rows.append(r)

    def mk_item(r):
        return ic(**r)

    # ---- construction (active checks) ------------------------------------
    want = [{k: L._val(v) for k, v in r.items()} for r in rows]
    tl = None
    via = case["via"] if rows else "items"
    try:
        if via == "items":
            tl = cls([mk_item(r) for r in rows])
            how = "from_items"
        elif via == "from_dict_rows":
            tl = cls.from_dict([dict(r) for r in rows])
            how = "from_dict"
        elif via == "from_dict_cols":
            tl = cls.from_dict({k: [r[k] for r in rows] for k in props})
            how = "from_dict"
        else:
            keep = [k for k in props if k in ("offset", "column", "length", "bpm")] or ["offset"]
            tl = cls.from_dict([{k: r[k] for k in keep} for r in rows])
            want = [{k: (L._val(r[k]) if k in keep else L._val(props[k][1])) for k in props} for r in rows]
            how = "from_dict_partial"
        exc = None
    except Exception as e:
        exc, how = e, {"items": "from_items"}.get(via, "from_dict")
    with ctx.quiet():
        L.judge_constructed(ctx, how, cls, tl, exc, want, dict(rows=want[:20], via=via))
    try:
        e_tl, exc2 = cls.empty(case["empty_n"]), None
    except Exception as e:
        e_tl, exc2 = None, e
    with ctx.quiet():
        L.judge_constructed(ctx, "empty_n", cls, e_tl, exc2,
                            [{k: L._val(v[1]) for k, v in props.items()} for _ in range(case["empty_n"])], dict(n=case["empty_n"]))
    if tl is None:
        return
    # ---- history ----------------------------------------------------------
    pool = [tl]
    for o in case["ops"]:
        cur = pool[int(o["src"] * len(pool)) % len(pool)]
        n = len(cur.df)
        res = None
        try:
            op = o["op"]
            if op == "len":
                len(cur)
            elif op == "getint":
                cur[o["i"]]
            elif op == "slice":
                res = cur[slice(*o["sl"])]
            elif op == "mask":
                r2 = random.Random(o["seed"])
                mask = np.array([r2.random() < 0.6 for _ in range(n)], dtype=bool)
                res = cur[mask] if (o["reverse"] or n == 0) else cur[list(mask)]
            elif op == "iter":
                if o["foreign"]:
                    # a frame carrying an undeclared column (as left behind by stacking / user edits)
                    cur = type(cur)(cur.df.assign(foreign_col=1))
                try:
                    items, ex = list(cur), None
                except Exception as e:
                    items, ex = None, e
                with ctx.quiet():
                    L.judge_iter(ctx, cur, items, ex)
            elif op == "edit":
                # in-place edit through the column property (same list object, same length): whatever was derived from the
                # old values (sortedness, extrema, positions) must not be remembered by later operations
                def battery():
                    for q in (lambda: len(cur), lambda: cur.first_offset(), lambda: cur.last_offset(), lambda: cur.sorted(), lambda: cur.sorted(reverse=True),
                              lambda: cur.after(o["x"]), lambda: cur.before(o["x"]), lambda: cur.between(o["x"], o["y"]), lambda: cur[0], lambda: cur[-1]):
                        try:
                            q()
                        except Exception:
                            pass
                if n:
                    battery()  # asked, edited, asked the same again
                    offs = cur.offset.to_numpy()
                    cur.offset = (np.roll(offs, 1) if o["reverse"] else offs[::-1]) + (0.5 if o["sort"] else 0.0)
                    ctx.state("c16.edited_in_place", True)
                    battery()
            elif op == "first":
                cur.first_offset()
            elif op == "last":
                cur.last_offset()
            elif op == "first_last":
                cur.first_last_offset()
            elif op == "sorted":
                res = cur.sorted(reverse=o["reverse"])
            elif op == "append_item":
                r = dict(rows[o["seed"] % len(rows)]) if rows else {k: (o["x"] if k == "offset" else _b(gen_value(random.Random(o["seed"]), k, v[0], v[1]))) for k, v in props.items()}
                r["offset"] = o["x"]
                res = cur.append(mk_item(r), sort=o["sort"])
            elif op == "append_list":
                other = pool[o["seed"] % len(pool)]
                res = cur.append(other, sort=o["sort"])
            if op in ("after", "before", "between") and o.get("tail_bound") and L._is_hold(cur) and n:
                # a bound that is exactly the tail (offset + length, as the list itself computes it) of one of the holds
                j = o["seed"] % n
                o = dict(o, x=float((cur.df["offset"] + cur.df["length"]).iloc[j]))
                o["y"] = max(o["x"], o["y"])
            if op == "after" and o["dflt"]:
                res = cur.after(o["x"])
            elif op == "before" and o["dflt"]:
                res = cur.before(o["x"])
            elif op == "between" and o["dflt"]:
                res = cur.between(o["x"], o["y"])
            elif op == "after":
                res = cur.after(o["x"], include_end=o["end"], **({"include_tail": o["tail"]} if L._is_hold(cur) else {}))
            elif op == "before":
                res = cur.before(o["x"], include_end=o["end"], **({"include_head": o["head"]} if L._is_hold(cur) else {}))
            elif op == "between":
                if L._is_hold(cur):
                    res = cur.between(o["x"], o["y"], include_ends=tuple(o["ie"]), include_head=o["head"], include_tail=o["tail"])
                    if o["x"] != o["y"] and o["end"]:
                        # bounds the other way round: with heads and tails both counted a hold spanning both bounds still qualifies
                        cur.between(max(o["x"], o["y"]), min(o["x"], o["y"]), include_ends=tuple(o["ie"]), include_head=True, include_tail=True)
                        cur.between(max(o["x"], o["y"]), min(o["x"], o["y"]), include_ends=tuple(o["ie"]), include_head=o["head"], include_tail=o["tail"])
                else:
                    res = cur.between(o["x"], o["y"], include_ends=o["ie"][0] if o["ie_bool"] else tuple(o["ie"]))
        except Exception:
            res = None
        if res is not None and L.is_timed_list(res) and len(pool) < 12:
            pool.append(res)
