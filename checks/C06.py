"""C06 — Quaver file and in-memory chart denote the same chart, both directions."""
from __future__ import annotations

import glob
import os

PROP = "C06"
BUDGET = {
    "quick": dict(shards=16, cases=2400, deadline=70),
    "thorough": dict(shards=16, cases=48000, deadline=1200),
}
DECIDING = ["qua.read", "qua.write", "fileio.write_file", "fileio.read_file"]
RULE = ("Generated .qua documents: lanes 1..8, StartTime / KeySounds / Bpm / Multiplier keys omitted in every combination, empty sections, "
        "hits only / holds only, float StartTimes, metadata strings needing YAML quoting (': # quotes leading space unicode yes/null/"
        "numeric-looking'); in-memory Quaver charts from rv/gen/charts.py incl. histories, and charts produced by OsuToQua / SMToQua / "
        "BMSToQua / O2JToQua from generated sources; the bundled .qua corpus (pinned). QuaMap.read is compared with the document tree "
        "(PyYAML-parsed) and QuaMap.write's document is checked for key sets, value types and denotation; each written document is read "
        "back and each read chart written again so both inverse pairs are judged by the same monitors.")
TOLERANCES = {"times": "< 1 ms on write, exact on read", "bpm / multiplier": "1e-9 relative"}
ASSUMPTIONS = ["PyYAML safe_load is the trusted YAML parser", "omitted Bpm / Multiplier: both circulating defaults (120 / 1.0 and 0) are accepted",
               "missing sections and an omitted Lane are outside the quantifier"]

LONG = "A rather long title that the YAML dumper folds over several lines because it is well beyond eighty characters in total length, yes"
HOSTILE = [LONG, "a: b", "#hash", "'single'", '"double"', "- dash", "? q", " leading", "trailing ", "夜に駆ける", "yes", "null", "123", "1.5", "~", "", "a\tb", "[x]", "{y}", "@at", "%pct", "multi word title"]
CONV = {"osu": "OsuToQua", "sm": "SMToQua", "bms": "BMSToQua", "o2j": "O2JToQua"}


def pinned(tier):
    repo = os.environ.get("VERIF_REPO", "/repo")
    return [dict(cls="c_locale")] + ([dict(cls="corpus", path=p) for p in sorted(glob.glob(os.path.join(repo, "rsc/maps/qua/*.qua")))]) + ([dict(cls="repo_test_suite", select=['tests/unit_tests/qua', 'tests/algorithm_tests/convert'])] if tier == "thorough" else [])


def gen_doc(rng, cls):
    import yaml

    n = rng.choice([0, 1, 3, 10, 30])
    objs = []
    t = rng.choice([0, 500, -200, -5000])  # lead-in objects at negative times
    only = {"hits_only": "hit", "holds_only": "hold"}.get(cls)
    for _ in range(n):
        t += rng.choice([0, 100, 250, 333])
        o = {}
        if not (cls == "omitted_keys" and rng.random() < 0.5) and not (cls == "no_start_time"):
            o["StartTime"] = t if rng.random() < 0.8 else t + 0.5
        o["Lane"] = rng.randint(1, 8)
        kind = only or rng.choice(["hit", "hit", "hold"])
        if kind == "hold":
            o["EndTime"] = int(o.get("StartTime", 0)) + rng.choice([1, 50, 500])
        if not (cls in ("omitted_keys", "no_start_time") and rng.random() < 0.6):
            o["KeySounds"] = rng.choice([[], [], [{"Sample": 1, "Volume": 100}], [{"Sample": 2, "Volume": 50}, {"Sample": 3, "Volume": 70}]])
        objs.append(o)
    tps = []
    for i in range(rng.choice([0, 1, 1, 3]) if cls == "empty_sections" else rng.choice([1, 2, 4])):
        tp = {}
        if i > 0 or rng.random() < 0.7:
            tp["StartTime"] = i * 5000 + rng.choice([0, 0.5])
        if not (cls == "omitted_keys" and rng.random() < 0.3):
            tp["Bpm"] = rng.choice([120.0, 150, 173.25, 200.5])
        tps.append(tp)
    svs = []
    for i in range(0 if cls == "empty_sections" else rng.choice([0, 2, 6])):
        sv = {}
        if rng.random() < 0.9:
            sv["StartTime"] = rng.randint(-3000, 20000)  # also ahead of the first timing point
        if not (cls == "omitted_keys" and rng.random() < 0.3):
            sv["Multiplier"] = rng.choice([0.5, 1, 1.5, 2.25, 0, 0.0, -1])  # 0 is a value (a stop), not an omitted key
        svs.append(sv)
    txt = (lambda: rng.choice(HOSTILE)) if cls == "hostile_strings" else (lambda: rng.choice(["Title", "a b", "x_y", ""]))
    doc = {"AudioFile": txt(), "SongPreviewTime": rng.choice([0, 12345]), "BackgroundFile": txt(), "MapId": rng.choice([-1, 77]), "MapSetId": -1,
           "Mode": rng.choice(["Keys4", "Keys7"]), "Title": txt(), "Artist": txt(), "Source": txt(), "Tags": rng.choice(["", "a b", "tag"]),
           "Creator": txt(), "DifficultyName": txt(), "Description": txt(), "EditorLayers": [], "CustomAudioSamples": [], "SoundEffects": [],
           "TimingPoints": tps, "SliderVelocities": svs, "HitObjects": objs}
    for k in rng.sample(["AudioFile", "SongPreviewTime", "BackgroundFile", "MapId", "Source", "Tags", "Description", "EditorLayers"], rng.randint(0, 3)):
        doc.pop(k)
    return yaml.safe_dump(doc, allow_unicode=rng.random() < 0.7, default_flow_style=False, sort_keys=False)


def gen(rng, tier, k):
    from rv.gen import charts

    r = rng.random()
    if r < 0.5:
        cls = rng.choice(["plain", "omitted_keys", "omitted_keys", "empty_sections", "hits_only", "holds_only", "hostile_strings", "no_start_time"])
        return dict(cls="doc:" + cls, text=gen_doc(rng, cls), as_lines=rng.random() < 0.3)
    if r < 0.8:
        spec = charts.gen_spec(rng, "qua")
        if rng.random() < 0.4:
            for ch in spec["charts"]:
                for f in ("title", "artist", "creator", "description"):
                    ch["meta"][f] = rng.choice(HOSTILE)
        hist = charts.gen_history(rng) if rng.random() < 0.5 else []
        if rng.random() < 0.2:
            # tempo points that share a written millisecond: less than 1 ms apart (rows in or out of time order), or exactly
            # coincident inside a long tempo list - the one in force must stay the one in force
            for ch in spec["charts"]:
                b = ch["bpms"]
                t_last = max(x[0] for x in b) + 1000.0
                kind = rng.choice(["sub_ms", "sub_ms_reversed", "long_coincident", "long_coincident_shuffled"])
                if kind.startswith("sub_ms"):
                    b += [[float(int(t_last)) + 0.25, 100.0, 4], [float(int(t_last)) + 0.75, 200.0, 4]]
                    if kind.endswith("reversed"):
                        b.reverse()
                else:
                    b += [[t_last + 50.0 * i, 60.0 + (i % 7) * 20.0, 4] for i in range(130)]
                    j = rng.randrange(len(b) - 100, len(b) - 1)
                    b[j + 1][0] = b[j][0]
                    if b[j + 1][1] == b[j][1]:
                        b[j + 1][1] += 5.0
                    if kind.endswith("shuffled"):
                        rng.shuffle(b)
            return dict(cls="chart:tempo_on_one_ms", spec=spec, history=[])
        return dict(cls="chart" + (":history" if hist else ""), spec=spec, history=hist)
    game = rng.choice(list(CONV))
    kw = dict(keys=rng.choice([4, 7])) if game in ("osu", "sm") else {}
    spec = charts.gen_spec(rng, game, **kw)
    return dict(cls="converted:" + CONV[game], spec=spec, history=charts.gen_history(rng) if rng.random() < 0.3 else [])


def setup(ctx):
    from rv.monitors import qua

    qua.install(ctx)


def run(ctx, case):
    if case.get("cls") == "repo_test_suite":
        from rv.suite import run_repo_tests
        return run_repo_tests(ctx, case.get("select"))
    if case.get("cls") == "c_locale":
        from rv.monitors import fileio
        return fileio.check_c_locale(ctx, "C06", "qua")
    import importlib

    from reamber.quaver.QuaMap import QuaMap
    from rv.gen import charts

    maps = []
    if case["cls"] == "corpus":
        with open(case["path"], encoding="utf8") as f:
            text = f.read()
        try:
            maps = [QuaMap.read(text.split("\n"))]
        except Exception:
            return
    elif case["cls"].startswith("doc:"):
        try:
            maps = [QuaMap.read(case["text"].split("\n") if case["as_lines"] else case["text"])]
        except Exception:
            return
    else:
        with ctx.quiet():
            try:
                obj = charts.apply_history(charts.build(case["spec"]), case["history"])
                if case["cls"].startswith("converted:"):
                    name = case["cls"].split(":")[1]
                    mod = importlib.import_module("reamber.algorithms.convert." + name)
                    kw = dict(raise_bad_mode=False) if name in ("OsuToQua",) else {}
                    obj = getattr(mod, name).convert(obj, **kw)
                maps = obj if isinstance(obj, list) else [obj]
            except Exception as e:
                ctx.counters["c06|build_failed"] += 1
                return
    for m in maps[:3]:
        try:
            out = m.write()
        except Exception:
            continue
        if ctx.cur_k is not None and ctx.cur_k % 4 == 1:
            from rv.monitors import fileio
            fileio.check_write_file(ctx, "C06", m, kind="text")
            fileio.check_read_file(ctx, "C06", QuaMap, out)
        if ctx.cur_k is not None and ctx.cur_k % 5 == 2:
            try:
                for tl in (m.hits, m.holds, m.svs, m.bpms):
                    if len(tl):
                        tl.offset += 7.25
                if len(m.bpms):
                    m.bpms.bpm *= 1.5
                out = m.write()   # the same chart object, edited in place, written again
            except Exception:
                ctx.counters["c06|edit_sequence_raised"] += 1
        try:
            m2 = QuaMap.read(out)      # read(write(x)): judged by the read monitor on the written text
            m2.write()                 # write(read(t)): judged by the write monitor
        except Exception:
            pass
