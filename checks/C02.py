"""C02 — StepMania reading places every object at the time its beat and tempos imply."""
from __future__ import annotations

import glob
import os

PROP = "C02"
BUDGET = {
    "quick": dict(shards=16, cases=640, deadline=70),
    "thorough": dict(shards=16, cases=16000, deadline=1200),
}
DECIDING = ["sm.read", "fileio.read_file"]
RULE = ("Generated .sm texts: 12 chart types / key counts 3..18, 1..4 charts per file, 4..192 rows per measure, all "
        "symbols 1 2 3 4 M L F K, holds/rolls spanning measures, tempo changes on 1/16 beats, on measure lines and "
        "on 1/3 beats written with 3/6 decimals, comment lines, blank lines, optional #STOPS tag, hostile comments "
        "(trailing on a row, containing ':' or ','); plus the bundled rsc/maps/sm corpus (pinned). The reference "
        "interpreter rv/ref/sm.py denotes each text and the monitor on SMMapSet.read compares objects, headers and tempo points.")
TOLERANCES = {"ms": "1e-6 abs + 1e-9 rel"}
ASSUMPTIONS = ["rv/ref/sm.py + rv/ref/timing.py are the trusted reading of the .sm format",
               "CR characters, rows with indentation and header values containing ':' are outside the judged domain"]

CLASSES = ["plain", "plain", "plain", "thirds3", "measure_lines", "many_charts", "no_stops_tag",
           "hostile_trailing", "hostile_colon", "hostile_comma"]


def pinned(tier):
    repo = os.environ.get("VERIF_REPO", "/repo")
    return [dict(cls="corpus", path=p) for p in sorted(glob.glob(os.path.join(repo, "rsc/maps/sm/*.sm")))]


def gen(rng, tier, k):
    from rv.gen import sm as gsm

    cls = rng.choice(CLASSES)
    text, facts = gsm.gen_text(rng, cls, max_measures=4 if tier == "quick" else 8)
    return dict(cls=cls, text=text)


def setup(ctx):
    from rv.monitors import sm, timing

    sm.install(ctx, read=True, write=False)
    timing.install(ctx, c10=False, c11=True)


def run(ctx, case):
    from reamber.sm.SMMapSet import SMMapSet

    if case["cls"] == "corpus":
        with open(case["path"], encoding="utf8") as f:
            text = f.read()
    else:
        text = case["text"]
    try:
        SMMapSet.read(text)
    except Exception:
        pass
    if case["cls"] != "corpus" and ctx.cur_k is not None and ctx.cur_k % 5 == 1:
        from rv.monitors import fileio
        fileio.check_read_file(ctx, "C02", SMMapSet, text)
    if case["cls"] != "corpus" and ctx.cur_k is not None and ctx.cur_k % 7 == 0:
        try:
            SMMapSet.read(text.split("\n"))  # list-of-lines form of the same API
        except Exception:
            pass
