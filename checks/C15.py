"""C15 — a chart is a set of timed objects: results do not depend on row order."""
from __future__ import annotations

PROP = "C15"
BUDGET = {
    "quick": dict(shards=16, cases=4800, deadline=90),
    "thorough": dict(shards=16, cases=20000, deadline=1500),
}
DECIDING = ["c15.pairs"]
RULE = ("For each operation f in {OsuMap.write, QuaMap.write, SMMapSet.write, BMSMap.write, the converters of the chart's game, rate, "
        "full_ln, hitsound_copy (as source and as target), dominant_bpm, scroll_speed, sv_normalize}: f is run on a chart and on 2..4 row "
        "permutations of all of its lists (reverse, random shuffle, rotation by append without sort, concatenation of two sorted halves); "
        "the canonical denotation of every result is recorded (reference-parsed file; sorted multisets of objects; per-time sound "
        "multisets; scalar; offset->speed map) and the permuted results are compared with the base result. Charts have >= 2 tempo "
        "points of different bpm and unequal active durations; inputs whose definition is order-dependent are not generated "
        "(same-time notes in one column, coincident SVs, dominant-bpm ties).")
TOLERANCES = {"files": "1e-6 ms / 1e-9 relative on denotations", "values": "1e-9 relative"}
ASSUMPTIONS = ["which of several simultaneous notes receives a copied sound is legitimately order-dependent: sounds are compared per time, not per note"]

OPS = ["write", "write", "convert", "convert", "rate", "full_ln", "hitsound_src", "hitsound_tgt", "dominant", "scroll", "normalize"]
CONV = {"osu": ["OsuToQua", "OsuToSM", "OsuToBMS"], "qua": ["QuaToOsu", "QuaToSM", "QuaToBMS"], "sm": ["SMToOsu", "SMToQua", "SMToBMS"],
        "bms": ["BMSToOsu", "BMSToQua", "BMSToSM"], "o2j": ["O2JToOsu", "O2JToQua", "O2JToSM", "O2JToBMS"]}


def gen(rng, tier, k):
    from rv.gen import charts, sm_mem

    op = rng.choice(OPS)
    perms = [["reverse"], ["shuffle", rng.randrange(10**6)], ["append_split", rng.randrange(10**6)], ["shuffle", rng.randrange(10**6)]][: rng.choice([2, 3, 4])]
    perms.append(rng.choice([["sorted_pieces", rng.randrange(10**6)], ["concat_dup_labels", rng.randrange(10**6)]]))
    if op == "write":
        game = rng.choice(["osu", "qua", "sm", "bms"])
        if game == "sm":
            return dict(cls="write:sm", op=op, game=game, sm_spec=sm_mem.gen_spec(rng, rng.choice(["tempo_on_measure_lines", "tempo_off_measure"])), perms=perms)
        if game == "bms":
            import checks.C05 as c05
            case = c05.gen(rng, tier, k)
            while case["cls"] == "from_read":
                case = c05.gen(rng, tier, k)
            return dict(cls="write:bms", op=op, game=game, bms_case=case, perms=perms)
    elif op in ("hitsound_src", "hitsound_tgt"):
        import checks.C18 as c18
        return dict(cls=op, op=op, game="osu", hs_case=c18.gen(rng, tier, k), perms=perms)
    elif op == "normalize":
        game = rng.choice(["osu", "qua"])
    else:
        game = rng.choice(charts.GAMES)
    spec = charts.gen_spec(rng, game, n=rng.choice([3, 8, 15]), n_bpm=rng.choice([2, 3, 5]), style=rng.choice(["int_ms", "frac", "grid", "neg"]))
    for ch in spec["charts"]:
        # no two notes on one (time, column); SVs at distinct times away from tempo points; distinct bpm values
        seen = set()
        for key in ("hits", "holds"):
            keep, keepx = [], []
            for i, n in enumerate(ch[key]):
                if (n[0], n[1]) in seen:
                    continue
                seen.add((n[0], n[1]))
                keep.append(n)
                if (key[:-1] + "_x") in ch:
                    keepx.append(ch[key[:-1] + "_x"][i])
            ch[key] = keep
            if (key[:-1] + "_x") in ch:
                ch[key[:-1] + "_x"] = keepx
        if "svs" in ch:
            ts = {b[0] for b in ch["bpms"]}
            svs, svx, used = [], [], set()
            for i, s in enumerate(ch["svs"]):
                if s[0] in ts or s[0] in used:
                    continue
                used.add(s[0])
                svs.append(s)
                if "sv_x" in ch:
                    svx.append(ch["sv_x"][i])
            ch["svs"] = svs
            if "sv_x" in ch:
                ch["sv_x"] = svx
        vals = [120.0, 150.0, 90.0, 200.0, 173.25, 60.0, 240.0]
        for i, b in enumerate(ch["bpms"]):
            b[1] = vals[i % len(vals)]
        if op in ("dominant", "scroll", "normalize") and rng.random() < 0.3 and len(ch["bpms"]) >= 2:
            # two tempo values active for exactly the same (maximal) time: whichever is called dominant, it must not depend on row order
            b = ch["bpms"]
            t0_ = b[0][0]
            b[:] = [[t0_, 120.0, 4], [t0_ + 1000.0, 150.0, 4]]
            for n in ch["hits"] + ch["holds"]:
                n[0] = min(n[0], t0_ + 1500.0) if n[0] >= t0_ else n[0]
            for h in ch["holds"]:
                h[2] = min(h[2], 100.0)
            ch["hits"].append([t0_ + 2000.0, 0])
            if "hit_x" in ch:
                ch["hit_x"].append(list(ch["hit_x"][0]) if ch["hit_x"] else {"osu": [0, 0, 0, 0, 0, ""], "qua": [[]], "bms": [b""], "o2j": [0, 8]}.get(game, []))
            if "bpm_x" in ch:
                ch["bpm_x"] = [[0, 0, 50, False] for _ in b]
            seen2 = set()
            for key in ("hits", "holds"):
                keep, keepx = [], []
                for i, n in enumerate(ch[key]):
                    if (n[0], n[1]) in seen2:
                        continue
                    seen2.add((n[0], n[1]))
                    keep.append(n)
                    if (key[:-1] + "_x") in ch:
                        keepx.append(ch[key[:-1] + "_x"][i])
                ch[key] = keep
                if (key[:-1] + "_x") in ch:
                    ch[key[:-1] + "_x"] = keepx
            if "svs" in ch:
                keep = [i for i, s in enumerate(ch["svs"]) if s[0] not in (t0_, t0_ + 1000.0)]
                ch["svs"] = [ch["svs"][i] for i in keep]
                if "sv_x" in ch:
                    ch["sv_x"] = [ch["sv_x"][i] for i in keep]
    return dict(cls=op + ":" + game, op=op, game=game, spec=spec, perms=perms, conv=rng.choice(CONV[game]), rate=rng.choice([0.5, 1.5, 2.0]),
                gap=rng.choice([0, 50, 150]), thres=rng.choice([0, 100]), override=rng.choice([None, 200.0]))


def setup(ctx):
    pass


def rnd(x, nd=6):
    return round(float(x), nd)


def den_of_result(op, game, res, case):
    """canonical, order-independent denotation of a result"""
    from collections import Counter

    from reamber.bms.BMSChannel import BMSChannel
    from rv.monitors.bms import lanes_of
    from rv.monitors.convert import charts_of, content
    from rv.ref import den as D
    from rv.snapshot import rows

    if op == "write":
        if game == "osu":
            from rv.ref import osu as ro
            d = ro.parse_osu(res)
            can = lambda lst: sorted(tuple(sorted((k, rnd(v) if isinstance(v, float) else v) for k, v in r.items())) for r in lst)
            return dict(hits=can(d["hits"]), holds=can(d["holds"]), bpms=can(d["bpms"]), svs=can(d["svs"]), samples=sorted(d["samples"]), meta=d["meta"], bg=d["background"])
        if game == "qua":
            x = D.den_qua(res)[0]
            import yaml
            doc = yaml.safe_load(res)
            return dict(objects=x["objects"], tempo=x["tempo"], svs=sorted((s.get("StartTime", 0), s.get("Multiplier")) for s in doc["SliderVelocities"]),
                        ks=sorted((o.get("StartTime", 0), o.get("Lane"), repr(o.get("KeySounds"))) for o in doc["HitObjects"]))
        if game == "sm":
            from rv.ref import sm as rsm
            d = rsm.parse_sm(res)
            return [dict(objects=sorted((k, c, rnd(t, 5), None if ln is None else rnd(ln, 5)) for k, c, t, ln in rsm.chart_objects_ms(d, ch)), hdr=(ch["type"], ch["desc"], ch["diff"], ch["meter"]))
                    for ch in d["charts"]] + [dict(tempo=[(rnd(t, 5), rnd(v)) for t, v, _ in rsm.timeline(d).points()], hdr=sorted((k, v) for k, v in d["hdr"].items() if k not in ("#BPMS", "#STOPS")))]
        if game == "bms":
            x = D.den_bms(res, lanes_of(BMSChannel.BME))[0]
            return dict(objects=[(c, rnd(a, 5), None if b is None else rnd(b, 5)) for c, a, b in x["objects"]], tempo=[(rnd(t, 5), rnd(v, 3)) for t, v in D.step(x["tempo"])])
    if op in ("convert", "rate", "full_ln"):
        out = []
        for ms, m in charts_of(res):
            d = {}
            for name, tl in m.objs.items():
                cols = sorted(str(c) for c in tl.df.columns)
                d[name] = sorted((tuple((rnd(v) if isinstance(v, float) else repr(v)) for v in r) for r in rows(tl, cols)), key=repr)
            # the file-level time fields of the result (file offset, preview point, sample window) place the objects in time when the
            # result is written: they belong to what the result means
            for holder in ({id(ms): ms, id(m): m}).values():
                for f in ("offset", "preview_time", "sample_start", "sample_length", "song_preview_time"):
                    v = getattr(holder, f, None)
                    if isinstance(v, (int, float)) and not isinstance(v, bool):
                        d[f"file field {type(holder).__name__}.{f}"] = rnd(float(v))
            out.append(d)
        return out
    if op in ("hitsound_src", "hitsound_tgt"):
        from rv.monitors.algos import osu_notes
        per = {}
        notes = osu_notes(res)
        for n in notes:
            e = per.setdefault(n["t"], dict(bits=Counter(), files=Counter(), notes=Counter()))
            for name, bit in (("clap", 2), ("finish", 4), ("whistle", 8)):
                if n["hs"] & bit:
                    e["bits"][(name, n["vol"])] += 1
            if n["file"]:
                e["files"][(n["file"], n["vol"])] += 1
            e["notes"][(n["col"], n["len"])] += 1
        for o, f, v in rows(res.samples, ["offset", "sample_file", "volume"]):
            per.setdefault(float(o), dict(bits=Counter(), files=Counter(), notes=Counter()))["files"][(f, v)] += 1
        return sorted((t, sorted(e["bits"].items()), sorted(e["files"].items()), sorted(e["notes"].items(), key=repr)) for t, e in per.items())
    if op == "dominant":
        return rnd(res, 9)
    if op == "scroll":
        return sorted({(rnd(i), rnd(v, 9)) for i, v in zip(res.index.tolist(), res.tolist())})
    if op == "normalize":
        return sorted((rnd(o), rnd(x, 9)) for o, x in rows(res, ["offset", "multiplier"]))
    raise ValueError(op)


def apply_f(op, game, x, case, other=None):
    import importlib

    from reamber.algorithms.analysis import scroll_speed
    from reamber.algorithms.generate import full_ln, sv_normalize
    from reamber.algorithms.osu.hitsound_copy import hitsound_copy
    from reamber.algorithms.utils import dominant_bpm
    from reamber.bms.BMSChannel import BMSChannel

    m = x.maps[0] if hasattr(x, "maps") else x
    if op == "write":
        return x.write(BMSChannel.BME) if game == "bms" else x.write()
    if op == "convert":
        cname = case["conv"]
        cls = getattr(importlib.import_module("reamber.algorithms.convert." + cname), cname)
        kw = {"raise_bad_mode": False} if cname in ("OsuToQua", "OsuToSM", "BMSToQua", "SMToQua") else {}
        return cls.convert(x, **kw)
    if op == "rate":
        return x.rate(case["rate"])
    if op == "full_ln":
        return full_ln(m, case["gap"], case["thres"])
    if op == "hitsound_src":
        return hitsound_copy(x, other)
    if op == "hitsound_tgt":
        return hitsound_copy(other, x)
    if op == "dominant":
        return dominant_bpm(m)
    if op == "scroll":
        return scroll_speed(m, case["override"])
    if op == "normalize":
        return sv_normalize(m, case["override"])


def run(ctx, case):
    from rv.gen import charts, sm_mem
    from rv.monitors.algos import dominant_candidates

    op, game = case["op"], case["game"]
    other = None
    try:
        if case["cls"] == "write:sm":
            base = sm_mem.build(case["sm_spec"])
        elif case["cls"] == "write:bms":
            import checks.C05 as c05
            base = c05.build(case["bms_case"])
        elif op in ("hitsound_src", "hitsound_tgt"):
            hc = case["hs_case"]
            src, tgt = charts.build(hc["src"]), charts.build(hc["tgt"])
            base, other = (src, tgt) if op == "hitsound_src" else (tgt, src)
        else:
            base = charts.build(case["spec"])
    except Exception:
        ctx.counters["c15|build_failed"] += 1
        return
    m0 = base.maps[0] if hasattr(base, "maps") else base
    if op in ("dominant", "scroll", "normalize"):
        try:
            # Ties are judged too: every tempo point of these charts has its own bpm value, so each total is a single
            # difference (no summation order to vary) and C15 asks for the same value whichever tied bpm is called dominant.
            acc, near = dominant_candidates(m0)
            if len(acc) != 1 or near:
                ctx.state("c15.dominant_tie", True)
        except Exception:
            return
    try:
        r0 = apply_f(op, game, base.deepcopy(), case, other)
        d0 = den_of_result(op, game, r0, case)
    except Exception as e:
        ctx.counters["c15|base_raised"] += 1
        return
    feat = dict(op=op if op != "convert" else "convert", game=game)
    for perm in case["perms"]:
        try:
            xp = charts.apply_history(base.deepcopy(), [perm])
            rp = apply_f(op, game, xp, case, other)
            dp = den_of_result(op, game, rp, case)
        except Exception as e:
            from rv import core
            ctx.violate("C15", "c15.pairs", "raises", f"{op} on a row-permuted {game} chart raised {type(e).__name__}: {e} (the same chart in its original order did not)",
                        dict(perm=perm, tb=core.short_tb(e)), dict(feat, perm=perm[0]))
            continue
        if dp != d0:
            diff = first_diff(d0, dp)
            ctx.violate("C15", "c15.pairs", "order_dependent", f"{case.get('conv') if op == 'convert' else op} ({game}): result differs after permutation {perm[0]}: {diff}",
                        dict(perm=perm, base=str(d0)[:1500], permuted=str(dp)[:1500]), dict(feat, perm=perm[0]))
        else:
            ctx.held("c15.pairs", op)
            ctx.state("c15.case", (op, game, perm[0]))


def first_diff(a, b, path=""):
    if type(a) != type(b):
        return f"{path}: {str(a)[:80]} vs {str(b)[:80]}"
    if isinstance(a, dict):
        for k in a:
            if a[k] != b.get(k):
                return first_diff(a[k], b.get(k), path + "." + str(k))
    if isinstance(a, (list, tuple)):
        if len(a) != len(b):
            return f"{path}: length {len(a)} vs {len(b)}"
        for i, (x, y) in enumerate(zip(a, b)):
            if x != y:
                return first_diff(x, y, f"{path}[{i}]")
    return f"{path}: {str(a)[:100]} vs {str(b)[:100]}"
