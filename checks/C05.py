"""C05 — BMS writing produces a file that denotes the in-memory chart."""
from __future__ import annotations

from fractions import Fraction as F

PROP = "C05"
BUDGET = {
    "quick": dict(shards=16, cases=960, deadline=80),
    "thorough": dict(shards=16, cases=16000, deadline=1500),
}
DECIDING = ["bms.write", "fileio.write_file"]
RULE = ("In-memory BMS charts for the five layouts: 1..40 tempo points on measure lines (first at 0 ms; bpm with <=3 decimals and "
        "arbitrary floats; 990-point cases in thorough - the 3-digit measure field caps tempo points on measure lines below the documented 1295), hits and holds on every lane at k/d beats for d in 1..96 (incl. measures "
        "whose denominators have an LCM >= 100, forcing several lines per measure and channel) and at off-grid millisecond times, with "
        "known and unknown samples, unsorted lists, and charts obtained by reading generated BMS texts; the monitor on BMSMap.write parses "
        "the bytes with rv/ref/bms.py: line syntax, object conservation per lane, head/LNOBJ pairing, times (exact on grid, 1/192 beat "
        "otherwise), tempo changes at the same positions with bpm to the 3 decimals the format line carries.")
TOLERANCES = {"on grid": "same grid position and 1e-6 ms when bpm has <= 3 decimals", "off grid": "1/192 beat", "bpm": "5e-4 (format line has 3 decimals)"}
ASSUMPTIONS = ["rv/ref/bms.py is the trusted reading of the format", "objects colliding in one (lane, grid slot) are outside the quantifier (gated with the reference grid)"]

DENS = [1, 2, 3, 4, 6, 8, 12, 16, 24, 32, 48]
ODD_DENS = [5, 7, 9, 11, 13, 32, 64, 96]


def fs(x):
    x = F(x)
    return f"{x.numerator}/{x.denominator}"


def gen(rng, tier, k):
    from rv.ref.bms import LAYOUTS

    cls = rng.choice(["grid", "grid", "grid", "big_lcm", "off_grid", "many_tempo", "float_bpm", "from_read", "unsorted", "relabelled_tempo", "write_edit_write"])
    if cls == "from_read":
        from rv.gen import bms as gbms

        lines, layout = gbms.gen_lines(rng, "plain", max_measures=4)[:2]
        return dict(cls=cls, lines=lines, layout=layout)
    layout = rng.choice(list(LAYOUTS))
    cols = sorted(set(LAYOUTS[layout].values()))
    n_meas = rng.randint(1, 6)
    n_t = {"many_tempo": rng.choice([10, 25, 40]), "unsorted": rng.choice([2, 3, 5]), "relabelled_tempo": rng.choice([2, 3, 5]),
           "write_edit_write": rng.choice([2, 3])}.get(cls, rng.choice([1, 1, 2, 3, 5]))
    if tier == "thorough" and k % 4000 == 17:
        n_t = 990  # the measure field has 3 digits: tempo points on measure lines cannot exceed 1000
    meas = sorted({0} | {rng.randint(1, min(998, max(n_meas, n_t * 2))) for _ in range(n_t - 1)}) if n_t < 900 else list(range(n_t))
    n_meas = max(n_meas, meas[-1] + 1)
    bpmf = (lambda: rng.choice([120.0, 150.0, 90.0, 180.5, 173.25, 60.0, 200.0, 139.999, 222.22])) if cls != "float_bpm" else (lambda: rng.uniform(40, 400))
    tempo = [[m, bpmf()] for m in meas]
    dens = ODD_DENS if cls == "big_lcm" else DENS
    objs = []
    used = set()
    for c in cols:
        if rng.random() < 0.3:
            continue
        b = F(rng.randint(0, 3), rng.choice([1, 2, 4]))
        while b < 4 * n_meas:
            if rng.random() < 0.55:
                d = rng.choice(dens)
                b0 = F(int(b) + 1) + F(rng.randint(0, d - 1), d)
                if b0 >= 4 * n_meas:
                    break
                if rng.random() < 0.3:
                    d2 = rng.choice(dens)
                    b1 = b0 + F(rng.randint(1, 4 * d2), d2)
                    cells = [(c, b0), (c, b1)]
                else:
                    b1 = None
                    cells = [(c, b0)]
                if not any(x in used for x in cells):
                    used.update(cells)
                    objs.append([c, fs(b0), None if b1 is None else fs(b1), rng.choice(["", "", "kick.wav", "snare.wav", "unknown.wav"])])
                    b = max(b, b1 or b0)
            b = b + F(rng.randint(1, 8), rng.choice([1, 2, 4]))
    off = []
    if cls == "off_grid":
        # off-grid objects on lanes of their own (an object inside a hold of its lane is not denotable with LNOBJ)
        objs = [o for o in objs if o[0] % 2 == 0]
        for c in [c for c in cols if c % 2 == 1]:
            t = rng.uniform(0, 500)
            for _ in range(rng.randint(1, 5)):
                ln = rng.choice([None, None, rng.choice([37.0, 120.5, 999.0])])
                off.append([c, round(t, rng.choice([0, 1, 3])), ln])
                t += (ln or 0) + rng.uniform(50, 1500)
    if cls == "unsorted":
        rng.shuffle(objs)
    return dict(cls=cls, layout=layout, tempo=tempo, objects=objs, off_grid=off,
                samples=rng.choice([{}, {"01": "kick.wav"}, {"0A": "kick.wav", "ZY": "snare.wav"}]),
                title=rng.choice(["Title", "a b", ""]), artist=rng.choice(["Artist", ""]), version=rng.choice(["7", "12"]))


def setup(ctx):
    from rv import reach
    from rv.monitors import bms, timing
    from reamber.algorithms.timing.utils.find_lcm import find_lcm
    from reamber.bms.BMSMap import BMSMap

    bms.install(ctx, read=False, write=True)
    reach.probe(find_lcm, {"bms.find_lcm.merge": "a[i] = lcm"})
    reach.probe(BMSMap._write_notes, {"bms.write.slot_fill": 'seq[int(row["num"])] = row["value"]'})


def build(case):
    from reamber.bms import BMSBpm, BMSHit, BMSHold, BMSMap
    from reamber.bms.lists import BMSBpmList
    from reamber.bms.lists.notes import BMSHitList, BMSHoldList
    from rv.ref.timing import RefBeats

    tl = RefBeats(F(0), [(F(4 * m), F(v)) for m, v in case["tempo"]])
    m = BMSMap()
    rows_ = [BMSBpm(float(tl.ms_of_beat(4 * mm)), float(v)) for mm, v in case["tempo"]]
    if case["cls"] == "unsorted" and len(rows_) > 1:
        rows_ = rows_[1:] + rows_[:1]  # tempo rows not stored in time order (e.g. a point appended later)
    m.bpms = BMSBpmList(rows_)
    if case["cls"] == "relabelled_tempo" and len(rows_) > 1:
        m.bpms = BMSBpmList(rows_[1:] + rows_[:1]).sorted()  # time order, but row labels 1..n-1, 0 (as after a filter or sorted())
    hits, holds = [], []
    for c, b0, b1, s in case["objects"]:
        t0 = float(tl.ms_of_beat(F(b0)))
        if b1 is None:
            hits.append(BMSHit(t0, c, s.encode()))
        else:
            holds.append(BMSHold(t0, c, float(tl.ms_of_beat(F(b1))) - t0, s.encode()))
    for c, t, ln in case["off_grid"]:
        if ln is None:
            hits.append(BMSHit(float(t), c, b""))
        else:
            holds.append(BMSHold(float(t), c, float(ln), b""))
    if hits:
        m.hits = BMSHitList(hits)
    if holds:
        m.holds = BMSHoldList(holds)
    m.samples = {k.encode(): v.encode() for k, v in case["samples"].items()}
    if len(case["title"]) % 3 == 0 and holds:
        m.ln_end_channel = [b"zz", b"0z", b"Zy"][len(case["artist"]) % 3]   # an end marker id with lower-case letters, matched as written
    m.title, m.artist, m.version = case["title"].encode(), case["artist"].encode(), case["version"].encode()
    return m


def run(ctx, case):
    from reamber.bms.BMSChannel import BMSChannel
    from reamber.bms.BMSMap import BMSMap

    config = getattr(BMSChannel, case["layout"])
    try:
        with ctx.quiet():
            m = BMSMap.read(case["lines"], config) if case["cls"] == "from_read" else build(case)
    except Exception:
        ctx.counters["c05|build_failed"] += 1
        return
    try:
        m.write(config)
    except Exception:
        pass
    if ctx.cur_k is not None and ctx.cur_k % 4 == 2:
        try:
            m.write(config, no_sample_default=b"02")   # the documented option for objects without a known sample
        except Exception:
            pass
    if ctx.cur_k is not None and ctx.cur_k % 4 == 0:
        # the caller's own layout dict (a copy of the shipped one), written with, then two lanes swapped in that same dict
        # and written again: each file must follow the layout as it is when passed
        try:
            own = dict(config)
            m.write(own)
            lane_keys = [k for k, v in own.items() if isinstance(v, int)]
            if len(lane_keys) >= 2:
                a, b = lane_keys[0], lane_keys[-1]
                own[a], own[b] = own[b], own[a]
                m.write(own)
                ctx.state("c05.layout_edited_in_place", True)
        except Exception:
            pass
    if case["cls"] == "write_edit_write":
        # the same chart object, tempo doubled in place (times halved), written again
        try:
            for tl in m.objs.values():
                if len(tl):
                    tl.offset /= 2
            if len(m.holds):
                m.holds.length /= 2
            m.bpms.bpm *= 2
            m.write(config)
        except Exception:
            ctx.counters["c05|edit_sequence_raised"] += 1
    if ctx.cur_k is not None and ctx.cur_k % 3 == 1:
        from rv.monitors import fileio
        fileio.check_write_file(ctx, "C05", m, args=(config,), kind="bytes")
