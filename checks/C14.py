"""C14 — query, generate, convert and write operations never modify their inputs."""
from __future__ import annotations

PROP = "C14"
BUDGET = {
    "quick": dict(shards=16, cases=3200, deadline=80),
    "thorough": dict(shards=16, cases=24000, deadline=1500),
}
DECIDING = ["frozen", "c14.alias"]
RULE = ("Charts of all five games from rv/gen/charts.py in the C08 history classes; on each, a sequence of 3..8 operations drawn from the "
        "statement's list: list filters / sort / append / move / copy / first-last / time_diff / indexing / iteration, BpmList queries, "
        "Map / MapSet rate / deepcopy / describe / stack(), every converter of the chart's game, the game's writer and write_file, full_ln, "
        "hitsound_copy (both arguments), sv_normalize, scroll_speed, dominant_bpm, Pattern.from_note_lists. A frozen-argument contract "
        "(snapshot of values, columns, dtypes, row labels, metadata before vs after) wraps every one of these functions; for results "
        "documented as copies (deepcopy, rate, move_*, sorted, append, filters, full_ln, hitsound_copy, converter lists) the result is then "
        "mutated through every path (column arithmetic, df.iloc cell write, item assignment, stack write) and the input re-compared.")
TOLERANCES = {}
ASSUMPTIONS = ["snapshot comparison is the verdict", "positional slices and TimedList(list) are not documented as copies and are not probed for aliasing"]

LIST_OPS = ["sorted", "sorted_rev", "append_item", "append_list", "append_to_empty", "after", "before", "between", "first", "last", "first_last", "move_start", "move_end",
            "time_diff", "deepcopy", "describe", "getint", "mask", "iter", "len", "to_numpy"]
MAP_OPS = ["rate", "deepcopy", "describe", "stack", "convert", "write", "write_file", "full_ln", "dominant", "scroll", "normalize", "pattern", "hitsound", "timing"]
CONV = {"osu": ["OsuToQua", "OsuToSM", "OsuToBMS"], "qua": ["QuaToOsu", "QuaToSM", "QuaToBMS"], "sm": ["SMToOsu", "SMToQua", "SMToBMS"],
        "bms": ["BMSToOsu", "BMSToQua", "BMSToSM"], "o2j": ["O2JToOsu", "O2JToQua", "O2JToSM", "O2JToBMS"]}


def pinned(tier):
    return [dict(cls="repo_test_suite", select=None)] if tier == "thorough" else []


def gen(rng, tier, k):
    from rv.gen import charts

    spec = charts.gen_spec(rng, n=rng.choice([1, 3, 8, 15]))
    if rng.random() < 0.3:
        # a note a hair after the first tempo point (not on it)
        for ch in spec["charts"]:
            t0 = min(b[0] for b in ch["bpms"])
            ch["hits"].append([t0 + 1e-6 * max(1.0, abs(t0)), 0])
            for k2, dflt in (("hit_x", {"osu": [0, 0, 0, 0, 0, ""], "qua": [[]], "bms": [b""], "o2j": [0, 8]}.get(spec["game"])),):
                if k2 in ch and dflt is not None:
                    ch[k2].append(dflt)
    hist = charts.gen_history(rng) if rng.random() < 0.5 else []
    ops = []
    for _ in range(rng.randint(3, 8)):
        if rng.random() < 0.5:
            ops.append(["list", rng.choice(["hits", "holds", "bpms", "svs"]), rng.choice(LIST_OPS), rng.randrange(10**6)])
        else:
            ops.append(["map", rng.choice(MAP_OPS), rng.randrange(10**6)])
    return dict(cls=spec["game"], spec=spec, history=hist, ops=ops)


def setup(ctx):
    from rv.monitors import frozen

    frozen.install(ctx)


def under_declared_keys(obj, seed):
    """an osu chart built from objects keeps the default CircleSize 4 whatever columns are in use"""
    if type(obj).__name__ == "OsuMap" and seed % 5 == 0:
        obj.circle_size = 4.0
    return obj


def alias_probe(ctx, op, inp, result):
    """result is documented as a copy of (part of) inp: mutate it, inp must not move."""
    import numpy as np

    from rv.snapshot import diff_snapshots, is_map, is_mapset, is_timed_list, snapshot

    with ctx.quiet():
        before = snapshot(inp)
        lists = []
        if is_timed_list(result):
            lists = [result]
        elif is_map(result):
            lists = list(result.objs.values())
        elif is_mapset(result):
            lists = [tl for m in result.maps for tl in m.objs.values()]
        elif isinstance(result, list):
            for r in result:
                if is_map(r):
                    lists += list(r.objs.values())
                elif is_mapset(r):
                    lists += [tl for m in r.maps for tl in m.objs.values()]
        paths = 0
        try:
            for tl in lists:
                if len(tl) == 0:
                    continue
                def attempt(f):
                    try:
                        f()
                    except Exception:
                        ctx.counters["c14.alias|mutation_path_raised"] += 1

                attempt(lambda: setattr(tl, "offset", tl.offset + 1.0))
                attempt(lambda: tl.df.iloc.__setitem__((0, list(tl.df.columns).index("offset")), -12345.5))
                attempt(lambda: tl.__setitem__(0, tl.df.iloc[0].tolist()))
                if "column" in tl.df.columns:
                    attempt(lambda: tl.df.__setitem__("column", tl.df["column"].to_numpy() * 0 + 1))
                for c in tl.df.columns:
                    arr = tl.df[c].to_numpy()
                    if arr.dtype.kind == "f" and arr.flags.writeable:
                        try:
                            arr[0] = arr[0] + 7.0
                        except Exception:
                            pass
                paths += 1
            for m in ([result] if is_map(result) else (list(result.maps) if is_mapset(result) else [])):
                if sum(len(v) for v in m.objs.values()):
                    m.stack().offset *= 2
                    paths += 1
            # mutable file-level fields of the result (tag lists, per-level lists of a set, sample tables): edited in place
            import dataclasses
            holders = []
            for r in (result if isinstance(result, list) else [result]):
                if is_mapset(r):
                    holders += [r] + list(r.maps)
                elif is_map(r):
                    holders.append(r)
            for h in holders:
                if not dataclasses.is_dataclass(h):
                    continue
                for f in dataclasses.fields(h):
                    if f.name in ("objs", "maps"):
                        continue
                    v = getattr(h, f.name, None)
                    if isinstance(v, list):
                        v.append("rv-sentinel" if not v or isinstance(v[0], str) else v[0])
                        if v and isinstance(v[0], (int, float)) and not isinstance(v[0], bool):
                            v[0] = v[0] + 5
                        paths += 1
                    elif isinstance(v, dict):
                        v["rv-sentinel"] = "x"
                        paths += 1
        except Exception as e:
            ctx.counters["c14.alias|mutation_path_raised"] += 1
        d = diff_snapshots(before, snapshot(inp))
    if d:
        ctx.violate("C14", "c14.alias", "shared_state", f"mutating the result of {op} changed the input: {d}", dict(op=op, diff=d), dict(op=op))
    elif paths:
        ctx.held("c14.alias", op)


def run(ctx, case):
    if case.get("cls") == "repo_test_suite":
        from rv.suite import run_repo_tests
        return run_repo_tests(ctx, case.get("select"))
    import importlib
    import os
    import random
    import tempfile

    from reamber.algorithms.analysis import scroll_speed
    from reamber.algorithms.generate import full_ln, sv_normalize
    from reamber.algorithms.osu.hitsound_copy import hitsound_copy
    from reamber.algorithms.pattern import Pattern
    from reamber.algorithms.utils import dominant_bpm
    from rv.gen import charts

    with ctx.quiet():
        try:
            obj = under_declared_keys(charts.apply_history(charts.build(case["spec"]), case["history"]), len(case["ops"]) + len(case["history"]))
        except Exception:
            ctx.counters["c14|build_failed"] += 1
            return
    game = case["spec"]["game"]
    maps = list(obj.maps) if hasattr(obj, "maps") else [obj]
    m = maps[0]
    for op in case["ops"]:
        r = random.Random(op[-1])
        try:
            if op[0] == "list":
                tl = m.objs.get(op[1]) or m.hits
                name = op[2]
                x = (r.choice(tl.df["offset"].tolist()) if len(tl) else 0.0) + r.choice([0.0, 0.5, -100.0])
                res = None
                copyres = True
                if name == "sorted":
                    res = tl.sorted()
                elif name == "sorted_rev":
                    res = tl.sorted(reverse=True)
                elif name == "append_item":
                    if len(tl):
                        res = tl.append(tl[0], sort=r.random() < 0.5)
                elif name == "append_list":
                    res = tl.append(tl, sort=r.random() < 0.5)
                elif name == "append_to_empty":
                    res = type(tl)([]).append(tl, sort=r.random() < 0.3)
                elif name == "after":
                    res = tl.after(x, include_end=r.random() < 0.5)
                elif name == "before":
                    res = tl.before(x, include_end=r.random() < 0.5)
                elif name == "between":
                    res = tl.between(x, x + 500)
                elif name == "first":
                    tl.first_offset()
                elif name == "last":
                    tl.last_offset()
                elif name == "first_last":
                    tl.first_last_offset()
                elif name == "move_start":
                    if len(tl):
                        res = tl.move_start_to(x)
                elif name == "move_end":
                    if len(tl):
                        res = tl.move_end_to(x)
                elif name == "time_diff":
                    if len(tl):
                        tl.time_diff()
                elif name == "deepcopy":
                    res = tl.deepcopy()
                elif name == "describe":
                    tl.describe()
                elif name == "getint":
                    if len(tl):
                        it = tl[r.randrange(len(tl))]
                        it.offset = -999.25   # an item is a copy of its row
                        copyres = False
                        with ctx.quiet():
                            pass
                elif name == "mask":
                    import numpy as np
                    res = tl[np.array([r.random() < 0.5 for _ in range(len(tl))], dtype=bool)]
                elif name == "iter":
                    for it in tl:
                        it.offset = -5.5
                elif name == "len":
                    len(tl)
                elif name == "to_numpy":
                    tl.to_numpy()
                if res is not None and copyres:
                    alias_probe(ctx, "list." + name, tl, res)
            else:
                name = op[1]
                res = None
                inp = obj
                if name == "rate":
                    res = obj.rate(r.choice([0.5, 1, 1.0, 1.5, 2.0]))
                elif name == "deepcopy":
                    res = obj.deepcopy()
                elif name == "describe":
                    try:
                        obj.describe()
                    except Exception:
                        pass
                elif name == "stack":
                    obj.stack()
                elif name == "convert":
                    cname = r.choice(CONV[game])
                    cls = getattr(importlib.import_module("reamber.algorithms.convert." + cname), cname)
                    kw = {"raise_bad_mode": False} if cname in ("OsuToQua", "OsuToSM", "BMSToQua", "SMToQua") else {}
                    res = cls.convert(obj, **kw)
                elif name in ("write", "write_file"):
                    if game == "o2j":
                        continue
                    if game == "bms":
                        # outside the writer's domain (tempo points off measure lines) BMSMap.write can take minutes
                        from reamber.bms.BMSChannel import BMSChannel
                        from rv.monitors import bms as mbms
                        with ctx.quiet():
                            try:
                                why = mbms.write_domain(obj, mbms.lanes_of(BMSChannel.BME))[0]
                            except Exception:
                                why = "gate_failed"
                        if why:
                            import checks.C05 as c05
                            seed_ = op[-1]
                            cc = c05.gen(random.Random(seed_), "quick", seed_)
                            while cc["cls"] == "from_read":
                                seed_ += 1
                                cc = c05.gen(random.Random(seed_), "quick", seed_)
                            with ctx.quiet():
                                wobj = c05.build(cc)
                                if r.random() < 0.5:
                                    wobj.ln_end_channel = b""   # as read from a file that declares no #LNOBJ
                            cfg = getattr(BMSChannel, cc["layout"])
                            if name == "write":
                                wobj.write(cfg)
                            else:
                                d = tempfile.mkdtemp(prefix="c14_")
                                try:
                                    wobj.write_file(os.path.join(d, "out.bms"), cfg)
                                finally:
                                    import shutil
                                    shutil.rmtree(d, ignore_errors=True)
                            continue
                    if name == "write":
                        obj.write()
                    else:
                        d = tempfile.mkdtemp(prefix="c14_")
                        try:
                            obj.write_file(os.path.join(d, "out.txt"))
                        finally:
                            import shutil
                            shutil.rmtree(d, ignore_errors=True)
                elif name == "full_ln":
                    inp = m
                    res = full_ln(m, r.choice([0, 50, 150]), r.choice([0, 100]))
                elif name == "dominant":
                    dominant_bpm(m)
                elif name == "scroll":
                    scroll_speed(m)
                elif name == "normalize":
                    if game in ("osu", "qua"):
                        res = None
                        sv_normalize(m)
                elif name == "timing":
                    # the timing engine is handed the chart's own columns (as the SM / BMS writers do)
                    from reamber.algorithms.timing.utils.Snapper import Snapper
                    from rv.snapshot import diff_snapshots, snapshot
                    with ctx.quiet():
                        before = snapshot(m)
                    tm = m.bpms.to_timing_map()
                    for col in (m.hits.offset, m.holds.offset, m.bpms.offset):
                        if len(col):
                            try:
                                tm.snaps(col, Snapper())
                                tm.beats(col, Snapper())
                            except Exception:
                                pass
                    with ctx.quiet():
                        d = diff_snapshots(before, snapshot(m))
                    if d:
                        ctx.violate("C14", "frozen", "argument_modified", f"TimingMap.snaps/beats on the chart's own offset column changed the chart: {d}", dict(diff=d), dict(op="TimingMap.snaps"))
                    else:
                        ctx.held("frozen", "TimingMap.snaps")
                elif name == "pattern":
                    Pattern.from_note_lists([m.hits, m.holds]).group()
                elif name == "hitsound":
                    if game == "osu":
                        other = charts.build(charts.gen_spec(random.Random(op[-1]), "osu", n=5))
                        inp = m
                        res = hitsound_copy(other, m) if r.random() < 0.5 else hitsound_copy(m, other)
                if res is not None:
                    alias_probe(ctx, "map." + name, inp, res)
        except Exception:
            ctx.counters["c14|op_raised"] += 1
