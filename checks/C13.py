"""C13 — rate change scales time uniformly, composes, and survives a write."""
from __future__ import annotations

PROP = "C13"
BUDGET = {
    "quick": dict(shards=16, cases=1280, deadline=80),
    "thorough": dict(shards=16, cases=30000, deadline=1500),
}
DECIDING = ["rate", "c13.algebra", "c13.write"]
RULE = ("Charts and mapsets of all five games (empty hold / SV / sample lists, non-default row labels after filter / sort / stack) x rates "
        "{0.5, 0.75, 1, 1.1, 1.5, 2, random in (0.1, 4)}. The contract on rate() compares the result with the pre-call state (times and "
        "durations / r, bpm * r, every other field and list unchanged, file-level time fields / r, source untouched); c13.algebra checks "
        "rate(1) = identity and rate(a).rate(b) = rate(a*b); c13.write writes the rated chart with each game's writer, reads it back "
        "with the real reader and compares with the rated in-memory timeline (the write monitors of C01/C03/C05/C06 judge the same "
        "writes against their references), and requires that a source inside a writer's domain is still inside it after rate.")
TOLERANCES = {"single rate": "1e-12 relative", "composition": "1e-9 relative", "written": "the writer's own resolution (1 ms osu/Quaver; grid for SM/BMS)"}
ASSUMPTIONS = ["file-level time fields: osu preview_time and sample events; StepMania sample_start, sample_length and offset"]

RATES = [0.5, 0.75, 1, 1.1, 1.5, 2]


def pinned(tier):
    return [dict(cls="repo_test_suite", select=['tests/unit_tests/base', 'tests/unit_tests/osu', 'tests/unit_tests/sm'])] if tier == "thorough" else []


def gen(rng, tier, k):
    from rv.gen import charts, sm_mem

    cls = rng.choice(["any", "any", "any", "sm_writable", "osu_qua_write", "bms_writable", "generic_mapset"])
    r = rng.choice(RATES + [round(rng.uniform(0.1, 4), rng.choice([1, 3, 6]))])
    r2 = rng.choice(RATES + [round(rng.uniform(0.2, 3), 3)])
    if cls == "sm_writable":
        spec = sm_mem.gen_spec(rng, rng.choice(["tempo_on_measure_lines", "tempo_off_measure", "single_tempo"]))
        return dict(cls=cls, sm_spec=spec, rate=r, rate2=r2)
    if cls == "generic_mapset":
        g = rng.choice(["osu", "osu", "qua", "bms"])
        return dict(cls=cls, specs=[charts.gen_spec(rng, g) for _ in range(rng.choice([1, 2, 3]))], rate=r, rate2=r2,
                    alias=rng.choice([None, None, "same_chart_twice", "shared_tempo_list"]))
    game = {"osu_qua_write": rng.choice(["osu", "qua"]), "bms_writable": "bms"}.get(cls)
    spec = charts.gen_spec(rng, game)
    hist = charts.gen_history(rng, allowed=["filter_mask", "sorted", "shuffle", "stack_noop", "reverse", "append_split"]) if rng.random() < 0.4 else []
    return dict(cls=cls, spec=spec, history=hist, rate=r, rate2=r2, alias=rng.choice([None, None, None, "same_chart_twice", "shared_tempo_list"]))


def setup(ctx):
    from rv.monitors import bms, osu, qua, rate, sm

    rate.install(ctx)
    osu.install(ctx, read=False, write=True)
    qua.install(ctx, read=False, write=True)
    sm.install(ctx, read=False, write=True)
    bms.install(ctx, read=False, write=True)


def run(ctx, case):
    if case.get("cls") == "repo_test_suite":
        from rv.suite import run_repo_tests
        return run_repo_tests(ctx, case.get("select"))
    from rv.gen import charts, sm_mem
    from rv.monitors.rate import compare_rated, state_of
    from rv.monitors.algos import game_of

    with ctx.quiet():
        try:
            if case["cls"] == "generic_mapset":
                from reamber.base.MapSet import MapSet
                x = MapSet([charts.build(s) for s in case["specs"]])   # the base mapset of single-chart games
            elif case["cls"] == "sm_writable":
                x = sm_mem.build(case["sm_spec"])
            else:
                x = charts.apply_history(charts.build(case["spec"]), case["history"])
            if case.get("alias") and hasattr(x, "maps") and x.maps:
                # charts of a set that refer to the same data (one chart listed twice, or a tempo list assigned from one chart
                # to the others): each chart of the result is still the source chart scaled once
                if case["alias"] == "same_chart_twice":
                    x.maps = list(x.maps) + [x.maps[0]]
                else:
                    for m_ in x.maps[1:]:
                        m_.bpms = x.maps[0].bpms
                ctx.state("c13.aliased_set", case["alias"])
        except Exception:
            ctx.counters["c13|build_failed"] += 1
            return
    r, r2 = case["rate"], case["rate2"]
    game = game_of(x.maps[0]) if hasattr(x, "maps") and x.maps else game_of(x)
    try:
        y = x.rate(r)
    except Exception:
        return
    # ---- algebra ----------------------------------------------------------
    try:
        with ctx.quiet():
            s0 = state_of(x)
        one = x.rate(1)
        ab = x.rate(r).rate(r2)
        direct = x.rate(r * r2)
        with ctx.quiet():
            shared = one is x or any(a is b for a, b in zip(maps_of(one), maps_of(x))) or any(
                ta is tb or ta.df is tb.df for a, b in zip(maps_of(one), maps_of(x)) for ta, tb in zip(a.objs.values(), b.objs.values()))
            if shared:
                ctx.violate("C13", "c13.algebra", "new_object", "rate(1) returned the original (or shares its charts / lists) instead of a new chart", dict(rate=1), dict(game=game))
            else:
                ctx.held("c13.algebra", "new_object")
            bad = compare_rated(s0, state_of(one), 1, game, tol=0.0)
            if bad:
                ctx.violate("C13", "c13.algebra", "identity", f"rate(1) is not the identity: {bad[1]}", dict(rate=1), dict(game=game))
            else:
                ctx.held("c13.algebra", "identity")
            bad = compare_rated(state_of(direct), state_of(ab), 1, game, tol=1e-9)
            if bad:
                ctx.violate("C13", "c13.algebra", "composition", f"rate({r}).rate({r2}) != rate({r * r2}): {bad[1]}", dict(a=r, b=r2), dict(game=game))
            else:
                ctx.held("c13.algebra", "composition")
    except Exception as e:
        if any(sum(len(v) for v in m.objs.values()) for m in (x.maps if hasattr(x, "maps") else [x])):
            ctx.violate("C13", "c13.algebra", "raises", f"{type(e).__name__}: {e}", dict(a=r, b=r2), dict(game=game))
    # ---- write of the rated chart ----------------------------------------
    write_back(ctx, x, y, r, game)
    if ctx.cur_k is not None and ctx.cur_k % 3 == 0:
        # the same chart edited in place (same lengths) and rated again by the same factor, then by another
        with ctx.quiet():
            try:
                for m in maps_of(x):
                    for lst in m.objs.values():
                        if len(lst):
                            lst.offset = lst.offset.to_numpy()[::-1] + 250.0
            except Exception:
                ctx.counters["c13|edit_failed"] += 1
                return
        for q in (r, r2):
            try:
                x.rate(q)
            except Exception:
                pass


def maps_of(o):
    return list(o.maps) if hasattr(o, "maps") else [o]


def write_back(ctx, x, y, r, game):
    """Writing the rated chart and reading it back gives the rated timeline; a writable source stays writable."""
    from rv.monitors import bms as mbms, osu as mosu, qua as mqua, sm as msm

    with ctx.quiet():
        try:
            if game == "osu":
                dom = lambda o: mosu.write_domain(o)
            elif game == "qua":
                dom = lambda o: mqua.write_domain(o)
            elif game == "sm":
                dom = lambda o: msm.write_domain(o)[0]
            elif game == "bms":
                from reamber.bms.BMSChannel import BMSChannel
                dom = lambda o: mbms.write_domain(o, mbms.lanes_of(BMSChannel.BME))[0]
            else:
                return
            before, after = dom(x), dom(y)
        except Exception:
            return
    if before is None and after is not None and after not in ("object_off_snap_grid", "two_objects_in_one_cell", "two_objects_in_one_cell_of_the_384_row_cap",
                                                               "difficulty_value_beyond_6_digits", "two_objects_in_one_lane_slot", "hold_shorter_than_a_grid_step",
                                                               "object_inside_a_hold_of_its_lane", "first_tempo_point_not_at_0ms"):
        ctx.violate("C13", "c13.write", "precondition_lost", f"the source satisfies the {game} writer's precondition, the rated chart does not: {after}",
                    dict(rate=r), dict(game=game, reason=after))
        return
    if after is not None:
        ctx.seen("c13.write", "rated_chart_outside_writer_domain." + str(after))
        return
    try:
        if game == "bms":
            from reamber.bms.BMSChannel import BMSChannel
            y.write(BMSChannel.BME)
        else:
            y.write()
        ctx.held("c13.write", "written_and_judged_by_writer_monitor")
    except Exception:
        pass
