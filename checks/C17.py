"""C17 — full-LN generation keeps every note and fills gaps by the stated rule."""
from __future__ import annotations

PROP = "C17"
BUDGET = {
    "quick": dict(shards=16, cases=6400, deadline=70),
    "thorough": dict(shards=16, cases=48000, deadline=1200),
}
DECIDING = ["full_ln"]
RULE = ("Charts of all five games from rv/gen/charts.py (chords, single-note and empty columns, equal-offset stacks, hits/holds mix, "
        "SM charts carrying mines/rolls/lifts, negative/fractional/duplicated offsets) in histories (reversed, shuffled, filtered, "
        "appended, stacked, rated, converter output) x gap in {0,1,50,150,random} x threshold in {0,1,100,random}; the monitor on "
        "full_ln recomputes the per-column rule (every processing order of tied notes) and checks conservation, the rule, "
        "'does not reach the next note', unchanged other lists/metadata and unchanged input.")
TOLERANCES = {"length": "1e-9 abs + 1e-9 rel"}
ASSUMPTIONS = ["notes of a chart = its hit list and hold list; tie groups of more than 3 notes are out of domain"]


def pinned(tier):
    return [dict(cls="repo_test_suite", select=['tests/algorithm_tests/generate'])] if tier == "thorough" else []


def gen(rng, tier, k):
    from rv.gen import charts

    cls = rng.choice(["plain", "plain", "ties", "history", "history", "converted", "dense_column"])
    kw = {}
    if cls == "ties":
        kw = dict(style="dup")
    if cls == "dense_column":
        kw = dict(keys=rng.choice([1, 2]), n=rng.choice([12, 25]))
    spec = charts.gen_spec(rng, **kw)
    if rng.random() < 0.12:
        # consecutive notes of a column whose room (distance - gap) misses the threshold by a hair, either way: the rule is exact
        gap_, thres_ = rng.choice([0, 50, 150]), rng.choice([0, 100, 100])
        for ch in spec["charts"]:
            t = 1000.0
            col = 0
            ch["hits"] = []
            if "hit_x" in ch:
                x0 = list(ch["hit_x"][0]) if ch["hit_x"] else None
            for d in (-1e-9, 1e-9, -1e-6, 1e-6, -5e-4, 5e-4, 0.0, -4e-9):
                ch["hits"] += [[t, col], [t + gap_ + thres_ + d, col]]
                t += 5000.0
                col = (col + 1) % max(1, ch["keys"])
            if "hit_x" in ch:
                ch["hit_x"] = [list(x0 if x0 is not None else _default_x(spec["game"])) for _ in ch["hits"]]
        return dict(cls="near_threshold", spec=spec, history=[], convert=None, gap=gap_, thres=thres_)
    hist = charts.gen_history(rng) if cls == "history" else []
    conv = None
    if cls == "converted":
        conv = rng.choice(CONVERTERS[spec["game"]])
    return dict(cls=cls, spec=spec, history=hist, convert=conv,
                gap=rng.choice([0, 0, 1, 50, 150, 150, round(rng.uniform(0, 400), 2)]),
                thres=rng.choice([0, 1, 100, 100, round(rng.uniform(0, 300), 2)]))


CONVERTERS = {"osu": ["OsuToQua", "OsuToSM", "OsuToBMS"], "qua": ["QuaToOsu", "QuaToSM", "QuaToBMS"],
              "sm": ["SMToOsu", "SMToQua", "SMToBMS"], "bms": ["BMSToOsu", "BMSToQua", "BMSToSM"],
              "o2j": ["O2JToOsu", "O2JToQua", "O2JToSM", "O2JToBMS"]}


def _default_x(game):
    return {"osu": [0, 0, 0, 0, 0, ""], "qua": [[]], "bms": [b""], "o2j": [0, 8]}.get(game, [])


def setup(ctx):
    from rv.monitors import algos

    algos.install(ctx, full_ln=True)


def maps_of(x):
    if isinstance(x, list):
        return [m for i in x for m in maps_of(i)]
    return list(x.maps) if hasattr(x, "maps") else [x]


def run(ctx, case):
    if case.get("cls") == "repo_test_suite":
        from rv.suite import run_repo_tests
        return run_repo_tests(ctx, case.get("select"))
    import importlib

    from reamber.algorithms.generate import full_ln
    from rv.gen import charts

    with ctx.quiet():
        try:
            obj = charts.apply_history(charts.build(case["spec"]), case["history"])
            if case["convert"]:
                mod = importlib.import_module("reamber.algorithms.convert." + case["convert"])
                obj = getattr(mod, case["convert"]).convert(obj)
        except Exception:
            ctx.counters["c17|build_failed"] += 1
            return
    ms = maps_of(obj)[:3]
    for m in ms:
        try:
            if ctx.cur_k is not None and ctx.cur_k % 2:
                full_ln(m, gap=case["gap"], ln_as_hit_thres=case["thres"])  # the keyword form of the same call
            else:
                full_ln(m, case["gap"], case["thres"])
        except Exception:
            pass
    if ctx.cur_k is not None and ctx.cur_k % 3 == 1:
        # the same chart asked again with one argument changed at a time
        for m in ms[:1]:
            for g, t in ((case["gap"], case["thres"] + 60), (case["gap"] + 25, case["thres"]), (case["gap"], case["thres"])):
                try:
                    full_ln(m, g, t)
                except Exception:
                    pass
    if ctx.cur_k is not None and ctx.cur_k % 3 == 0:
        # the same chart objects edited in place (same lengths, other times / columns / kinds of gap) and asked again,
        # then the result of a generation fed back in: nothing may be remembered from the first call
        for m in ms:
            with ctx.quiet():
                try:
                    if len(m.hits):
                        m.hits.offset = m.hits.offset.to_numpy()[::-1] + 37.0
                    if len(m.holds):
                        m.holds.length = m.holds.length.to_numpy() * 0.5
                        m.holds.column = m.holds.column.to_numpy()[::-1]
                except Exception:
                    ctx.counters["c17|edit_failed"] += 1
                    continue
            try:
                again = full_ln(m, case["thres"], case["gap"])
                full_ln(again, case["gap"], case["thres"])
            except Exception:
                pass
