"""C18 — hitsound copy moves sounds, never notes, and loses nothing it promises to keep."""
from __future__ import annotations

PROP = "C18"
BUDGET = {
    "quick": dict(shards=16, cases=3200, deadline=70),
    "thorough": dict(shards=16, cases=48000, deadline=1200),
}
DECIDING = ["hitsound_copy"]
RULE = ("Pairs of osu charts drawn on a shared pool of times (disjoint / partial / full overlap), 0..4 target notes per time, per "
        "time 0..3 of each default sound over 1..3 volumes and 0..4 named samples (some duplicated), hits and holds on both sides, "
        "targets that already carry hitsounds/samples, unsorted lists, times up to an hour with target notes 0.5..3 ms off a source time; the monitor on hitsound_copy judges six clauses: notes equal "
        "the target's, default sounds bounded by the source per time, capacity, named samples conserved (notes + event samples), "
        "no unexplained sound, inputs unchanged.")
TOLERANCES = {"time": "exact float equality (the algorithm matches times exactly)"}
ASSUMPTIONS = ["file names containing ';' are out of domain (the algorithm's join character)",
               "default sounds = clap/finish/whistle bits; the 'normal' bit and sample-set fields are not sounds to copy"]


def gen_side(rng, times, keys, rich):
    hits, holds, hx, lx = [], [], [], []
    for t in times:
        n = rng.choice([0, 1, 1, 2, 3, 4]) if rich else rng.choice([0, 1, 1, 2])
        cols = rng.sample(range(keys), min(n, keys))
        for c in cols:
            if rich:
                r = rng.random()
                hs = rng.choice([0, 2, 4, 8, 2 | 4, 2 | 8, 14, 1, 3]) if r < 0.7 else 0
                f = rng.choice(["", "", "hit.wav", "clap.ogg", "hit.wav", "kick.wav", "LR3_FX Bz4.wav", "soft hit 2.wav"]) if (hs & 14) == 0 or rng.random() < 0.15 else ""
                x = [hs, rng.randrange(4), rng.randrange(4), rng.randrange(3), rng.choice([0, 20, 20, 30, 70]), f]
            else:
                x = [0, 0, 0, 0, 0, ""]
            if rng.random() < 0.25:
                holds.append([t, c, rng.choice([50.0, 250.0, 1000.0, 0.0])])
                lx.append(x)
            else:
                hits.append([t, c])
                hx.append(x)
    return hits, holds, hx, lx


def gen(rng, tier, k):
    cls = rng.choice(["clean_target", "clean_target", "overflow", "dirty_target", "unsorted", "disjoint", "late_near_miss"])
    keys = rng.choice([4, 7])
    base = rng.choice([0.0, 0.0, 0.0, 95000.0, 180000.0, 600000.0, 3600000.0]) if cls != "late_near_miss" else rng.choice([120000.0, 180000.0, 600000.0, 3600000.0])
    pool = sorted({base + float(rng.randint(0, 40) * 125) + rng.choice([0.0, 0.0, 0.5]) for _ in range(rng.randint(1, 14))})
    ts = pool if cls != "disjoint" else pool[: len(pool) // 2]
    tt = pool if cls != "disjoint" else pool[len(pool) // 2:]
    ts = [t for t in ts if rng.random() < 0.8]
    tt = [t for t in tt if rng.random() < 0.8]
    sh, sl, shx, slx = gen_side(rng, ts, keys, True)
    th, tl, thx, tlx = gen_side(rng, tt, keys if cls != "overflow" else 2, cls == "dirty_target")
    if cls == "late_near_miss":
        # target notes 0.5..3 ms away from source times (never at them): nothing may be copied onto them
        for t in ts[: rng.randint(1, 4)]:
            for d in rng.sample([-3.0, -2.0, -1.0, -0.5, 0.5, 1.0, 2.0, 3.0], rng.randint(1, 3)):
                if (t + d) not in ts:
                    th.append([t + d, rng.randrange(keys)])
                    thx.append([0, 0, 0, 0, 0, ""])
    if cls == "overflow" and ts:
        # many named samples at one time, few slots
        t = rng.choice(ts)
        for c in range(min(keys, rng.randint(2, 4))):
            sh.append([t, c])
            shx.append([0, 0, 0, 0, rng.choice([20, 30]), rng.choice(["a.wav", "b.wav", "a.wav", "c.wav", "a b.wav"])])
    def chart(h, l, hx, lx, samples):
        return dict(keys=keys, hits=h, holds=l, hit_x=hx, hold_x=lx, bpms=[[min([0.0] + [x[0] for x in h + l]), 120.0, 4]], bpm_x=[[0, 0, 50, False]],
                    svs=[], sv_x=[], samples=samples, meta=dict(circle_size=float(keys)))
    src = dict(game="osu", via="items", charts=[chart(sh, sl, shx, slx, [])])
    tgt = dict(game="osu", via="items", charts=[chart(th, tl, thx, tlx, [[100.0, "old.wav", 50]] if cls == "dirty_target" else [])])
    hist = [["shuffle", rng.randrange(10**6)]] if cls == "unsorted" else []
    return dict(cls=cls, src=src, tgt=tgt, history=hist)


def setup(ctx):
    from rv.monitors import algos

    algos.install(ctx, hitsound=True)


def run(ctx, case):
    from reamber.algorithms.osu.hitsound_copy import hitsound_copy
    from rv.gen import charts

    with ctx.quiet():
        src = charts.apply_history(charts.build(case["src"]), case["history"])
        tgt = charts.apply_history(charts.build(case["tgt"]), case["history"])
    try:
        hitsound_copy(src, tgt)
    except Exception:
        pass
    if ctx.cur_k is not None and ctx.cur_k % 3 == 0:
        # the same two chart objects edited in place (same lengths: the sounds of the source rotated over its notes, the
        # target moved in time) and copied again: nothing may be remembered from the first call
        with ctx.quiet():
            try:
                import numpy as np
                for lst in (src.hits, src.holds):
                    if len(lst) > 1:
                        for f in ("hitsound_set", "hitsound_file", "volume"):
                            lst.df[f] = np.roll(lst.df[f].to_numpy(), 1)
                if len(tgt.hits) > 1:
                    tgt.hits.offset = np.roll(tgt.hits.offset.to_numpy(), 1)
            except Exception:
                ctx.counters["c18|edit_failed"] += 1
                return
        try:
            hitsound_copy(src, tgt)
        except Exception:
            pass
