"""C01 — osu!mania file and in-memory chart denote the same chart, both directions."""
from __future__ import annotations

import glob
import os

PROP = "C01"
BUDGET = {
    "quick": dict(shards=16, cases=2400, deadline=70),
    "thorough": dict(shards=16, cases=60000, deadline=1200),
}
DECIDING = ["osu.read", "osu.write", "c01.chain", "fileio.write_file", "fileio.read_file"]
RULE = ("Generated .osu v14 mania texts: key counts 1..18, x at column centre / left edge / right edge / random inside, negative, zero and "
        "huge (1e7) times, hits + holds (0 and 1 ms holds), hitsound bytes 0..15, sample/addition/custom/volume fields, sample file "
        "names, 0..25 SVs incl. coincident with tempo points, 1..4 tempo points with meters 1..7, metadata with a second ':', non-ASCII, "
        "empty, Sample events, [Events] with and without the editor's comment lines, shuffled timing/hit lines; in-memory charts of "
        "rv/gen/charts.py (built from items / dict / frames, unsorted, fractional offsets, after stack / rate / filter); the bundled "
        "rsc/maps/osu corpus (pinned). Monitors on OsuMap.read/write compare with rv/ref/osu.py; every written text is pushed through "
        "5 read/write generations and each is compared with the first (c01.chain).")
TOLERANCES = {"note and sample times": "< 1 ms", "bpm / SV": "1e-9 relative (same bound for every generation)", "tempo point offsets": "exact"}
ASSUMPTIONS = ["rv/ref/osu.py is the trusted reading of the v14 format", "Title/Artist may come back romanised (unidecode) on write",
               "abbreviated lines (omitted hitSample, short timing points) and effect bits other than kiai are outside the judged domain"]

TEXT_CLASSES = ["plain", "plain", "colon_meta", "no_event_comments", "edge_x", "big_times", "many_sv", "video_first", "sample_no_volume"]


def pinned(tier):
    repo = os.environ.get("VERIF_REPO", "/repo")
    files = sorted(glob.glob(os.path.join(repo, "rsc/maps/osu/*.osu")))
    return [dict(cls="c_locale")] + ([dict(cls="corpus", path=p) for p in (files if tier == "thorough" else files[:6])]) + ([dict(cls="repo_test_suite", select=['tests/unit_tests/osu', 'tests/algorithm_tests'])] if tier == "thorough" else [])


def gen(rng, tier, k):
    from rv.gen import charts
    from rv.gen import osu as gosu

    if rng.random() < 0.55:
        cls = rng.choice(TEXT_CLASSES)
        return dict(cls="text:" + cls, lines=gosu.gen_text(rng, cls))
    spec = charts.gen_spec(rng, "osu")
    for ch in spec["charts"]:
        # text fields a .osu line can carry
        ch["meta"]["tags"] = ch["meta"]["tags"]
    hist = charts.gen_history(rng) if rng.random() < 0.5 else []
    return dict(cls="chart" + (":history" if hist else ""), spec=spec, history=hist)


def setup(ctx):
    from rv import reach
    from rv.monitors import osu
    from reamber.osu.OsuMapMeta import OsuMapMeta
    from reamber.osu.OsuNoteMeta import OsuNoteMeta

    osu.install(ctx)
    reach.probe(OsuNoteMeta.x_axis_to_column, {"osu.x_axis_to_column": "return max(min("})
    reach.probe(OsuNoteMeta.column_to_x_axis, {"osu.column_to_x_axis": "return int(floor("})
    reach.probe(OsuMapMeta._read_meta_string_list, {"osu.meta_split": "line.split("})


def chain(ctx, lines0):
    """gen1 = lines0; gen(k+1) = write(read(gen k)); every generation denotes gen1."""
    from reamber.osu.OsuMap import OsuMap
    from rv.monitors.osu import match_rows, rel
    from rv.ref import osu as ro

    d1 = ro.parse_osu(lines0)
    cur = lines0
    for g in range(2, 6):
        try:
            with ctx.quiet():
                nxt = OsuMap.read([str(x) for ln in cur for x in str(ln).split("\n")]).write()
        except Exception as e:
            return ctx.violate("C01", "c01.chain", "raises", f"generation {g}: read/write of a written text raised {type(e).__name__}: {e}",
                               dict(text="\n".join(map(str, cur))[:3000]), dict(generation=min(g, 3)))
        dk = ro.parse_osu(nxt)
        exact = lambda a, b: a == b
        for name, tk, rk in (("hits", ["offset"], []), ("holds", ["offset", "length"], []), ("bpms", ["offset"], ["bpm"]), ("svs", ["offset"], ["multiplier"])):
            bad = match_rows(d1[name], dk[name], tk, exact, rk)
            if bad:
                return ctx.violate("C01", "c01.chain", "drift", f"generation {g} differs from generation 1 in {name}: {bad}",
                                   dict(gen1="\n".join(map(str, lines0))[:3000], genk="\n".join(map(str, nxt))[:3000]), dict(generation=min(g, 3), part=name))
        if d1["meta"] != dk["meta"] or d1["background"] != dk["background"] or sorted(d1["samples"]) != sorted(dk["samples"]):
            diff = [k for k in d1["meta"] if d1["meta"].get(k) != dk["meta"].get(k)]
            return ctx.violate("C01", "c01.chain", "drift", f"generation {g} differs from generation 1 in metadata/events: {diff or 'events'}",
                               dict(gen1="\n".join(map(str, lines0))[:3000], genk="\n".join(map(str, nxt))[:3000]), dict(generation=min(g, 3), part="meta"))
        cur = nxt
    ctx.held("c01.chain", "five_generations")


def run(ctx, case):
    if case.get("cls") == "repo_test_suite":
        from rv.suite import run_repo_tests
        return run_repo_tests(ctx, case.get("select"))
    if case.get("cls") == "c_locale":
        from rv.monitors import fileio
        return fileio.check_c_locale(ctx, "C01", "osu")
    from reamber.osu.OsuMap import OsuMap
    from rv.gen import charts
    from rv.monitors.osu import read_domain, write_domain
    from rv.ref import osu as ro

    if case["cls"] == "corpus":
        with open(case["path"], encoding="utf8") as f:
            lines = f.read().split("\n")
        try:
            m = OsuMap.read(lines)
        except Exception:
            return
    elif case["cls"].startswith("text:"):
        if ctx.cur_k is not None and ctx.cur_k % 3 == 1:
            from rv.monitors import fileio
            fileio.check_read_file(ctx, "C01", OsuMap, "\n".join(case["lines"]), read_arg=list(case["lines"]))
        try:
            m = OsuMap.read(list(case["lines"]))
        except Exception:
            return
    else:
        with ctx.quiet():
            try:
                m = charts.apply_history(charts.build(case["spec"]), case["history"])
            except Exception:
                ctx.counters["c01|build_failed"] += 1
                return
    try:
        out = m.write()
    except Exception:
        return
    if ctx.cur_k is not None and ctx.cur_k % 5 == 2:
        # the same chart object edited in place between two writes (nothing may be remembered from the first)
        try:
            for tl in (m.hits, m.holds, m.svs, m.samples):
                if len(tl):
                    tl.offset += 7.25
            if len(m.bpms):
                m.bpms.offset += 7.25
                m.bpms.bpm *= 1.5
            if len(m.hits):
                m.hits.column = (m.hits.column + 1) % int(m.circle_size)
            out = m.write()
        except Exception:
            ctx.counters["c01|edit_sequence_raised"] += 1
    with ctx.quiet():
        ok = write_domain(m) is None
    if ok and (ctx.cur_k is None or ctx.cur_k % 3 == 0 or case["cls"] == "corpus"):
        chain(ctx, out)
    if ctx.cur_k is not None and ctx.cur_k % 4 == 1:
        from rv.monitors import fileio
        fileio.check_write_file(ctx, "C01", m, kind="lines")
        text = "\n".join(str(x) for ln in out for x in str(ln).split("\n"))
        fileio.check_read_file(ctx, "C01", OsuMap, text, read_arg=text.split("\n"))
    # read(write(x)) is judged by the read monitor on the written text
    try:
        OsuMap.read([str(x) for ln in out for x in str(ln).split("\n")])
    except Exception:
        pass
