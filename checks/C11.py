"""C11 — reseating tempo changes onto measure lines."""
from __future__ import annotations

import itertools
from fractions import Fraction as F

PROP = "C11"
BUDGET = {
    "quick": dict(shards=8, cases=3000, deadline=60),
    "thorough": dict(shards=16, cases=60000, deadline=900),
}
DECIDING = ["reseat", "tm.from_snap_reseat", "tm.reseat", "c11.kf_witness"]
REQUIRED_REACH = {
    "quick": ["reseat.partial.replace", "reseat.partial.insert"],
    "thorough": ["reseat.partial.replace", "reseat.partial.insert", "reseat.extend_bpm", "reseat.extend_metronome"],
}
RULE = ("Tempo-change lists with the first change at (0,0): exhaustive 2-change lists on the half-beat grid within 6 "
        "measures x 3 bpms (pinned), exhaustive slices of 3-change lists (thorough), random lists of 2..8 changes on "
        "1/2, 1/3, 1/4, 1/12, 1/48 grids with mixed bpms, constant metronomes 3/4/5/7 and mixed metronomes on measure "
        "lines, already seated lists, and near-line lists whose interval remainders fall within 1e-4..4e-3 of a "
        "measure/beat line (the only way into the two 'extend' branches). Each list goes through "
        "reseat_bpm_changes_snap, from_bpm_changes_snap(reseat=True) and TimingMap.reseat(); invariants are computed "
        "with the exact integrator on input and output.")
TOLERANCES = {"ms": "1e-6 abs + 1e-9 rel", "bpm": "1e-9 rel"}
ASSUMPTIONS = ["rv/ref/timing.py exact integrator", "extend_threshold left at its default 0.001"]

BPMS3 = [120.0, 150.0, 200.0]


def fs(x):
    x = F(x)
    return f"{x.numerator}/{x.denominator}"


def enum2():
    """All 2-change lists on the half-beat grid within 6 measures x 3x3 bpms."""
    out = []
    for h in range(1, 48):
        m, b = divmod(F(h, 2), 4)
        for v0, v1 in itertools.product(BPMS3, BPMS3):
            out.append([[0, "0/1", v0, 4], [int(m), fs(b), v1, 4]])
    return out


def enum3_slice(k, size=150):
    """k-th slice of all 3-change lists on the half-beat grid (6 measures, 3 bpms)."""
    pos = list(itertools.combinations(range(1, 48), 2))
    bp = list(itertools.product(BPMS3, repeat=3))
    total = len(pos) * len(bp)
    out = []
    for idx in range((k * size) % total, min((k * size) % total + size, total)):
        (h1, h2), (v0, v1, v2) = pos[idx // len(bp)], bp[idx % len(bp)]
        chs = [[0, "0/1", v0, 4]]
        for h, v in ((h1, v1), (h2, v2)):
            m, b = divmod(F(h, 2), 4)
            chs.append([int(m), fs(b), v, 4])
        out.append(chs)
    return out, total


def kf_witnesses():
    """Pinned inputs of the open known finding KF-C11-extend-branches with the output the current code gives
    (known_findings.json, read-only): a change in how those inputs are handled is a *different* violation."""
    from rv import core

    for f in core.load_known_findings().get("findings", []):
        if f["id"] == "KF-C11-extend-branches":
            return f.get("pinned_outputs", [])
    return []


def pinned(tier):
    lists = enum2()
    return [dict(cls="enum_half_beat_2", lists=lists[i:i + 141], initial=0.0) for i in range(0, len(lists), 141)] + \
        [dict(cls="kf_witness", lists=[w["changes"]], initial=w["initial"], expected=w["outputs"], wid=i) for i, w in enumerate(kf_witnesses())]


def gen_bpm(rng):
    return rng.choice([60.0, 120.0, 150.0, 174.0, 200.0, 222.22, 90.5, 300.0, rng.uniform(30, 400)])


def gen(rng, tier, k):
    r = rng.random()
    initial = rng.choice([0.0, 0.0, -500.0, 123.456, 10000.0])
    if tier == "thorough" and r < 0.25:
        lists, total = enum3_slice(k)
        return dict(cls="enum_half_beat_3", lists=lists, initial=initial)
    cls = rng.choice(["random_grid", "random_grid", "near_line", "near_line", "seated", "const_other_metronome",
                      "mixed_metronome_seated", "long", "unsorted_direct", "late_fine"])
    met = 4
    if cls == "const_other_metronome":
        met = rng.choice([3, 5, 7])
    if cls == "late_fine":
        # hundreds of measures in, changes a fine-grid step apart (times in the millions of ms: a relative tolerance is wide there)
        m0 = rng.choice([300, 400, 650, 900, 1500])
        chs = [[0, "0/1", gen_bpm(rng), 4], [m0, "0/1", gen_bpm(rng), 4]]
        b = F(0)
        for _ in range(rng.randint(1, 4)):
            b += F(1, rng.choice([64, 48, 32, 16, 96]))
            chs.append([m0, fs(b), gen_bpm(rng), 4])
        return dict(cls=cls, lists=[chs], initial=initial)
    n = rng.randint(2, 8) if cls != "long" else rng.randint(9, 20)
    chs = [[0, "0/1", gen_bpm(rng), met if cls != "mixed_metronome_seated" else rng.randint(2, 7)]]
    m, b = 0, F(0)
    for _ in range(n - 1):
        cur_met = chs[-1][3]
        if cls in ("seated", "mixed_metronome_seated"):
            m += rng.randint(1, 5)
            b = F(0)
            nm = rng.randint(2, 7) if cls == "mixed_metronome_seated" else met
            chs.append([m, "0/1", gen_bpm(rng), nm])
            continue
        if cls == "near_line":
            # a distance that ends just after a measure or beat line
            whole = rng.choice([F(0), F(1), F(2), F(4), F(8), F(rng.randint(0, 12))])
            eps = F(rng.choice([1, 2, 5, 9, 10, 11, 20, 39, 40]), 10000) * rng.choice([1, 1, cur_met])
            d = whole + eps - b % 1 if rng.random() < 0.5 else whole + eps
            if d <= 0:
                d += 1
        else:
            g = rng.choice([2, 3, 4, 12, 48, 1])
            d = F(rng.randint(1, 6 * g * cur_met), g)
        tot = b + d
        m += int(tot // cur_met)
        b = tot - (tot // cur_met) * cur_met
        chs.append([m, fs(b), gen_bpm(rng), cur_met])
    return dict(cls=cls, lists=[chs], initial=initial)


def edited_then_reseat(TimingMap, initial, mk):
    """One TimingMap object: looked at, then edited in place (same number of changes), then reseated."""
    tm = TimingMap.from_bpm_changes_snap(initial, mk(), False)
    tm.bpm_changes_snap()
    try:
        tm.offsets([tm.bpm_changes_snap()[-1].snap])
    except Exception:
        pass
    first = tm.bpm_changes_offset[0]
    d = first.metronome * 60000.0 / first.bpm  # one whole measure of the first segment
    for c in tm.bpm_changes_offset[1:]:
        c.offset += d
    return tm.reseat()


def witness_outputs(initial, mk):
    """What the three entry points give for a list: [(offset, bpm, metronome)...] or the exception name."""
    from reamber.algorithms.timing.TimingMap import TimingMap

    out = {}
    for name, f in (("reseat_fn", lambda: [(float(b.snap.measure), float(b.snap.beat), float(b.bpm), float(b.metronome)) for b in TimingMap.reseat_bpm_changes_snap(mk())]),
                    ("from_snap", lambda: [(float(b.offset), float(b.bpm), float(b.metronome)) for b in TimingMap.from_bpm_changes_snap(initial, mk(), True).bpm_changes_offset]),
                    ("tm_reseat", lambda: [(float(b.offset), float(b.bpm), float(b.metronome)) for b in TimingMap.from_bpm_changes_snap(initial, mk(), False).reseat().bpm_changes_offset])):
        try:
            out[name] = [[round(x, 9) for x in r] for r in f()]
        except Exception as e:
            out[name] = "raises " + type(e).__name__
    return out


def same_outputs(a, b):
    if set(a) != set(b):
        return False
    for k in a:
        x, y = a[k], b[k]
        if isinstance(x, str) or isinstance(y, str):
            if x != y:
                return False
            continue
        if len(x) != len(y) or any(len(r) != len(s) or any(abs(p - q) > 1e-6 + 1e-9 * abs(q) for p, q in zip(r, s)) for r, s in zip(x, y)):
            return False
    return True


def setup(ctx):
    import importlib

    from rv import reach
    from rv.monitors import timing

    mod = importlib.import_module("reamber.algorithms.timing.utils.reseat_bpm_changes_snap")
    missing = reach.probe(mod.reseat_bpm_changes_snap, {
        "reseat.extend_bpm": "offset = (measure_diff_quo - 1) * bcs_0.measure_length + offset_0",
        "reseat.extend_bpm.replace": ("bcs_s[i] = bcs", 0),
        "reseat.extend_bpm.insert": ("bcs_s.insert(i + 1, bcs)", 0),
        "reseat.extend_metronome": "metronome = beat_diff_quo % bcs_0.metronome",
        "reseat.extend_metronome.replace": ("bcs_s[i] = bcs", 1),
        "reseat.extend_metronome.insert": ("bcs_s.insert(i + 1, bcs)", 1),
        "reseat.partial": "offset = measure_diff_quo * bcs_0.measure_length + offset_0",
        "reseat.partial.replace": ("bcs_s[i] = bcs", 2),
        "reseat.partial.insert": ("bcs_s.insert(i + 1, bcs)", 2),
    })
    for lab in missing:
        # the source line the probe looks for is gone (a refactor): not a reason to call the run inconclusive
        ctx.counters[f"reach.unlocatable.{lab}"] += 1
    if missing:
        ctx.notes.append(f"reach labels not located: {missing}")
    timing.install(ctx, c10=False, c11=True)


def run(ctx, case):
    from reamber.algorithms.timing.TimingMap import TimingMap
    from reamber.algorithms.timing.utils.BpmChangeSnap import BpmChangeSnap
    from reamber.algorithms.timing.utils.snap import Snap

    initial = case["initial"]
    for chs in case["lists"]:
        def mk():
            return [BpmChangeSnap(float(v), int(t), Snap(int(m), F(b), int(t))) for m, b, v, t in chs]

        if case["cls"] == "kf_witness":
            with ctx.quiet():
                got = witness_outputs(initial, mk)
            if not same_outputs(got, case["expected"]):
                ctx.violate("C11", "c11.kf_witness", "behaviour_changed",
                            f"pinned input {case['wid']} of KF-C11-extend-branches no longer gives the recorded output: recorded {case['expected']}, now {got}",
                            dict(changes=chs, recorded=case["expected"], now=got), dict(witness=True))
            else:
                ctx.held("c11.kf_witness", "recorded_output")
        if case["cls"] == "unsorted_direct":
            import random as _r
            def mk(mk_=mk, seed=len(chs)):
                lst = mk_()
                _r.Random(seed).shuffle(lst)
                return lst
        for f in (
            lambda: TimingMap.reseat_bpm_changes_snap(mk()),
            lambda: TimingMap.from_bpm_changes_snap(initial, mk(), True),
            lambda: TimingMap.from_bpm_changes_snap(initial, mk(), False).reseat(),
            lambda: edited_then_reseat(TimingMap, initial, mk),
        ):
            try:
                f()
            except Exception:
                pass  # the monitors have recorded it
