"""C20 — pattern grouping partitions the notes; combinations are exactly the allowed ones."""
from __future__ import annotations

PROP = "C20"
BUDGET = {
    "quick": dict(shards=16, cases=12800, deadline=70),
    "thorough": dict(shards=16, cases=80000, deadline=1200),
}
DECIDING = ["pattern.from_lists", "pattern.group", "combo.combinations", "filter.combo.create", "filter.chord.create", "filter.type.create"]
RULE = ("Note sets of 0..40 notes (ties, repeated columns, holds with tails, via Pattern(...) and Pattern.from_note_lists on generated "
        "charts after histories that leave non-default row labels; from_note_lists must hold exactly the rows of the lists plus the requested tails), windows v in {0,1,10,50,1000}, h in {None,0,1,2,keys}, both jack settings; combination sizes 2..4, make_size2 on/off, "
        "every single option and pairs of options of the chord / column / type filters, include and exclude, single- and multi-row "
        "bases, plus template_jacks and template_chord_stream; the same Pattern / PtnCombo is asked again with one argument changed at a time. group() is checked for partition + window + jack invariants; "
        "create() against reference option expansions; combinations() against a brute-force itertools.product with reference filter semantics.")
TOLERANCES = {}
ASSUMPTIONS = ["option expansions: REPEAT = all in-range translations, H/V mirror, ANY_ORDER = permutations, AND_LOWER/AND_HIGHER = "
               "componentwise ranges of each base row, type match by issubclass; AND_LOWER|AND_HIGHER together is out of domain",
               "a chord filter accepts a window iff its whole size vector is a row of the expansion"]


def pinned(tier):
    return [dict(cls="repo_test_suite", select=['tests/algorithm_tests/pattern'])] if tier == "thorough" else []


def gen(rng, tier, k):
    keys = rng.choice([4, 4, 5, 7, 9])
    n = rng.choice([0, 1, 3, 8, 15, 25, 40])
    notes = []
    t = 0.0
    for _ in range(n):
        t += rng.choice([0.0, 0.0, 1.0, 10.0, 50.0, 50.0, 100.0, 250.0])
        ty = rng.choice(["Hit", "Hit", "Hit", "Hold", "OsuHit"])
        c = rng.randrange(keys)
        notes.append([c, t, ty])
        if ty == "Hold" and rng.random() < 0.8:
            notes.append([c, t + rng.choice([10.0, 50.0, 100.0, 300.0]), "HoldTail"])
    cls = rng.choice(["plain", "plain", "filters", "filters", "filters", "templates", "from_lists", "multi_row"])
    size = rng.choice([2, 2, 3, 4])
    f = {}
    if cls in ("filters", "multi_row"):
        nrow = 1 if cls == "filters" else rng.choice([2, 3])
        if rng.random() < 0.6:
            f["chord"] = dict(base=[[rng.randint(1, min(keys, 3)) for _ in range(size)] for _ in range(nrow)],
                              options=rng.choice([0, 1, 2, 4, 1 | 2, 1 | 4]), exclude=rng.random() < 0.3)
        if rng.random() < 0.6:
            f["combo"] = dict(base=[[rng.randrange(keys) for _ in range(size)] for _ in range(nrow)],
                              options=rng.choice([0, 1, 2, 4, 3, 5, 6, 7]), exclude=rng.random() < 0.3)
        if rng.random() < 0.6:
            tn = ["Hit", "Hold", "HoldTail", "object", "Note", "OsuHit"]
            f["type"] = dict(base=[[rng.choice(tn) for _ in range(size)] for _ in range(nrow)],
                             options=rng.choice([0, 1, 2, 3]), exclude=rng.random() < 0.4)
    return dict(cls=cls, keys=keys, notes=notes, v=rng.choice([0, 1, 10, 50, 50, 1000]), h=rng.choice([None, None, 0, 1, 2, keys]),
                jack=rng.random() < 0.6, size=size, make_size2=rng.random() < 0.4, filters=f,
                template=rng.choice([["jacks", rng.choice([2, 3, 4])],
                                     ["chord_stream", rng.randint(1, 3), rng.randint(1, 3), rng.random() < 0.5, rng.random() < 0.5]]),
                chart_seed=rng.randrange(10**6))


def setup(ctx):
    from rv.monitors import pattern

    pattern.install(ctx)


def run(ctx, case):
    if case.get("cls") == "repo_test_suite":
        from rv.suite import run_repo_tests
        return run_repo_tests(ctx, case.get("select"))
    import random

    from reamber.algorithms.pattern import Pattern
    from reamber.algorithms.pattern.combos import PtnCombo
    from reamber.algorithms.pattern.filters import PtnFilterChord, PtnFilterCombo, PtnFilterType
    from reamber.base.Hit import Hit
    from reamber.base.Hold import Hold, HoldTail
    from reamber.base.Note import Note
    from reamber.osu.OsuHit import OsuHit

    T = dict(Hit=Hit, Hold=Hold, HoldTail=HoldTail, Note=Note, OsuHit=OsuHit, object=object)
    keys = case["keys"]
    try:
        if case["cls"] == "from_lists":
            from rv.gen import charts

            with ctx.quiet():
                spec = charts.gen_spec(random.Random(case["chart_seed"]), random.Random(case["chart_seed"]).choice(["osu", "qua", "bms", "o2j"]))
                r_ = random.Random(case["chart_seed"] + 1)
                # lists with non-default row labels / order (filtered, reversed, shuffled, rate-changed, split and re-appended)
                hist = charts.gen_history(r_, allowed=["filter_mask", "sorted", "shuffle", "reverse", "append_split", "rate", "stack_noop"]) if r_.random() < 0.6 else []
                if r_.random() < 0.3:
                    for ch_ in spec["charts"]:
                        for h_ in ch_["holds"]:
                            if r_.random() < 0.4:
                                h_[2] = 0.0  # a hold that ends where it starts still has its (requested) tail
                m = charts.apply_history(charts.build(spec), hist)
                m = m.maps[0] if hasattr(m, "maps") else m
                ctx.state("c20.from_lists_history", tuple(h[0] for h in hist))
                keys = max(spec["charts"][0]["keys"], 1)
            lists_ = [m.hits, m.holds]
            if case["chart_seed"] % 3 == 0 and len(m.hits) > 1:
                half = len(m.hits) // 2
                lists_ = [m.hits[:half], m.holds, m.hits[half:]]  # e.g. left-hand and right-hand notes kept in two lists of one class
            p = Pattern.from_note_lists(lists_, include_tails=case["jack"])
        else:
            p = Pattern([n[0] for n in case["notes"]], [n[1] for n in case["notes"]], [T[n[2]] for n in case["notes"]])
        groups = p.group(v_window=case["v"], h_window=case["h"], avoid_jack=case["jack"])
    except Exception:
        return
    if ctx.cur_k is not None and ctx.cur_k % 3 == 0:
        # the same Pattern asked again with other windows: the second grouping is judged on its own arguments
        try:
            # one argument changed at a time, then all of them, then the first question again
            p.group(v_window=case["v"], h_window=case["h"], avoid_jack=not case["jack"])
            p.group(v_window=case["v"] * 2 + 5, h_window=case["h"], avoid_jack=case["jack"])
            p.group(v_window=case["v"], h_window=None if case["h"] is not None else 1, avoid_jack=case["jack"])
            p.group(v_window=case["v"] * 2 + 5, h_window=None if case["h"] is not None else 1, avoid_jack=not case["jack"])
            groups = p.group(v_window=case["v"], h_window=case["h"], avoid_jack=case["jack"])
        except Exception:
            return
    combo = PtnCombo(groups)
    kw = {}
    try:
        fs = case["filters"]
        if "chord" in fs:
            kw["chord_filter"] = PtnFilterChord.create(fs["chord"]["base"], keys=keys, options=fs["chord"]["options"], exclude=fs["chord"]["exclude"]).filter
        if "combo" in fs:
            kw["combo_filter"] = PtnFilterCombo.create(fs["combo"]["base"], keys=keys, options=fs["combo"]["options"], exclude=fs["combo"]["exclude"]).filter
        if "type" in fs:
            kw["type_filter"] = PtnFilterType.create([[T[x] for x in r] for r in fs["type"]["base"]], options=fs["type"]["options"], exclude=fs["type"]["exclude"]).filter
    except Exception:
        return
    try:
        combo.combinations(size=case["size"], make_size2=case["make_size2"], **kw)
    except Exception:
        pass
    if ctx.cur_k is not None and ctx.cur_k % 3 == 1:
        # the same PtnCombo asked for another size, without and then again with the filters
        try:
            combo.combinations(size=2 + (case["size"] - 1) % 3, make_size2=not case["make_size2"])
            combo.combinations(size=case["size"], make_size2=case["make_size2"], **kw)
        except Exception:
            pass
    if case["cls"] == "templates":
        t = case["template"]
        try:
            if t[0] == "jacks":
                combo.template_jacks(t[1], keys)
            else:
                combo.template_chord_stream(t[1], t[2], keys, and_lower=t[3], include_jack=t[4])
        except Exception:
            pass
